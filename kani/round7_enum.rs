//@ kani round7_enum
//@ append src/find/mod.rs
//@ module verif_enum_round7
//@ harness e_exec_plus_true kind=enum props=C08 bound=<<-exec CMD {} + with a CMD that fails, followed by -print0: three files in one batch; the entry / under -maxdepth 0 with -execdir; 7101 files whose paths (about 410 bytes each) overflow one command line, so that a batch is dispatched in the middle of the walk; real processes>> label=<<-exec/-execdir CMD {} + is always true - also for the entry whose arrival dispatches a full batch and also when CMD fails - every path is still delivered exactly once, and find's exit status is non-zero when an invocation fails>>
//@ harness e_exec_noexec kind=enum props=C09 bound=<<a CMD that is an executable text file without a #! line (exec fails with ENOEXEC) and the same file with #!/bin/sh, under -exec and -execdir, on a file two directories below a working directory that holds a decoy of the same name>> label=<<whenever CMD runs it runs once per file with the path (./basename under -execdir) as given and, under -execdir, in the file's parent directory; the action is true exactly when CMD ran and exited 0>>
//@ harness e_delete_prefix_roots kind=enum props=C10 bound=<<starting points cache.d (holding an entry that is not matched, so cache.d/keep and cache.d cannot be removed) and cache, whose name is a byte-prefix of the other, in both orders x tests {! -name precious, -true, -type d}>> label=<<-delete removes exactly what -depth EXPR -print reports on an identical tree, for each starting point independently of failures under an earlier starting point>>
//@ harness e_daystart_position kind=enum props=C15 bound=<<files aged 30 s, 1 h, 5 h, 11 h, 13 h, 23 h, 25 h, 30 h, 47 h, 49 h x tests -mtime {0, 1, +0, -1}, -mmin {+600, -600, +1500}, -atime 1 x the test alone, followed by -daystart, followed by -o ( -daystart -false ), and -daystart given only as the operand of -name>> label=<<the time tests measure from 'now' unless -daystart was given BEFORE them: a -daystart later on the command line, in a later group, or as an operand of another primary changes nothing>>
//@ harness e_newer_t_tz kind=enum props=C11 bound=<<TZ in {UTC0, CET-1CEST,M3.5.0,M10.5.0/3, EST5EDT,M3.2.0,M11.1.0, Europe/Berlin, America/New_York, Australia/Lord_Howe} x -newermt operands naming a time inside the spring-forward gap or the fall-back overlap of those zones, and an ordinary time (7 operands); each case in a child process (TZ is process-wide)>> label=<<find ends with an ordinary exit status for every literal-time operand in every time zone - a wall-clock time that does not exist or exists twice is accepted or rejected with a diagnostic, never a panic>>
//@ harness e_missing_root kind=enum props=C02,C18 bound=<<starting points a, b and one that does not exist (first, second or last) x -maxdepth absent, 0, 1, 2 x -mindepth absent, 0, 1, 2>> label=<<a starting point that cannot be examined yields a non-zero exit status whatever the depth window, is never itself reported, and the other starting points report exactly what they report without it>>
//@ harness e_prune_conjunction kind=enum props=C03 bound=<<a tree r/{a/{f1,sub/f2},skip/{inside,deep/deeper/x},z/f3,top} x eight expressions in which -prune is evaluated on r/skip and followed, in the same conjunction, list, group or negation, by terms that are false, true or never reached>> label=<<-prune on a directory leaves out exactly that directory's descendants the moment it is evaluated, whatever the remaining terms of the expression yield: the output equals what the same expression with -true for -prune selects, minus everything below the pruned directory>>
//@ harness e_argv0_as_given kind=enum props=C04,C06 bound=<<a command given as a bare name and found through a PATH directory that is short or about 1200 bytes long; one invocation in -I mode; the child reports its own argv[0]; run in a child process with its own PATH>> label=<<each invocation begins with the unchanged command: the program is started under the name given on the command line (which is what the size limiters were charged for), not under a longer resolved path>>
//@ harness e_echo_is_a_command kind=enum props=C19 bound=<<xargs -n2 echo and xargs -n2 echo fixed on four arguments, with PATH holding only a directory where echo does not exist, exits 3, exits 255, or exits 0; run in a child process with its own PATH>> label=<<a command that is given is run for every batch and its outcomes decide the exit status (127 not found, 123, 124 and stop, 0), also when the command is called echo>>
#[cfg(verif_replay)]
mod verif_enum_round7 {
    use super::*;
    use crate::find::tests::FakeDependencies;
    use std::ffi::{OsStr, OsString};
    use std::os::unix::ffi::OsStrExt;
    use std::os::unix::fs::PermissionsExt;
    use std::path::{Path, PathBuf};
    use std::time::{Duration, SystemTime};
//@SHIM@
    fn scratch(tag: &str) -> PathBuf {
        let d = std::env::temp_dir().join(format!("verif-enum-r7-{}-{}", tag, std::process::id()));
        let _ = std::fs::remove_dir_all(&d);
        std::fs::create_dir_all(&d).unwrap();
        d
    }
    fn run(args: &[&str]) -> (i32, Vec<u8>) {
        let deps = FakeDependencies::new();
        let rc = find_main(args, &deps);
        let out = deps.output.borrow().get_ref().clone();
        (rc, out)
    }
    fn script(p: &Path, text: &str) {
        std::fs::write(p, text).unwrap();
        std::fs::set_permissions(p, std::fs::Permissions::from_mode(0o755)).unwrap();
    }

    fn exec_plus_true_body() {
        let case = pick(3);
        let d = scratch("ept");
        let log = d.join("log");
        let cmd = d.join("cmd.sh");
        script(&cmd, &format!("#!/bin/sh\necho $# >> '{}'\nexit 1\n", log.display()));
        let cmds = cmd.to_str().unwrap().to_string();
        let (args, want): (Vec<String>, Vec<Vec<u8>>) = match case {
            0 => {
                let t = d.join("t");
                std::fs::create_dir(&t).unwrap();
                for n in ["a", "b", "c"] { std::fs::write(t.join(n), "").unwrap(); }
                let ts = t.to_str().unwrap().to_string();
                (vec!["find".into(), ts.clone(), "-sorted".into(), "-type".into(), "f".into(), "-exec".into(), cmds.clone(), "{}".into(), "+".into(), "-print0".into()],
                 ["a", "b", "c"].iter().map(|n| format!("{ts}/{n}").into_bytes()).collect())
            }
            1 => (vec!["find".into(), "/".into(), "-maxdepth".into(), "0".into(), "-execdir".into(), cmds.clone(), "{}".into(), "+".into(), "-print0".into()], vec![b"/".to_vec()]),
            _ => {
                let t = d.join("tree").join("a".repeat(200)).join("b".repeat(200));
                std::fs::create_dir_all(&t).unwrap();
                let n = 7101;
                let mut names: Vec<String> = (0..n).map(|i| format!("f{i:05}")).collect();
                names.sort();
                for f in &names { std::fs::write(t.join(f), "").unwrap(); }
                let ts = t.to_str().unwrap().to_string();
                (vec!["find".into(), ts.clone(), "-sorted".into(), "-type".into(), "f".into(), "-exec".into(), cmds.clone(), "{}".into(), "+".into(), "-print0".into()],
                 names.iter().map(|f| format!("{ts}/{f}").into_bytes()).collect())
            }
        };
        let argv: Vec<&str> = args.iter().map(|s| s.as_str()).collect();
        let (rc, out) = run(&argv);
        let printed: Vec<Vec<u8>> = out.split(|&b| b == 0).filter(|s| !s.is_empty()).map(|s| s.to_vec()).collect();
        let counts: Vec<usize> = std::fs::read_to_string(&log).unwrap_or_default().lines().map(|l| l.trim().parse().unwrap_or(0)).collect();
        let delivered: usize = counts.iter().sum();
        let _ = std::fs::remove_dir_all(&d);
        if printed != want || delivered != want.len() || rc == 0 {
            let missing: Vec<String> = want.iter().filter(|w| !printed.contains(w)).take(3).map(|w| String::from_utf8_lossy(w).into_owned()).collect();
            eprintln!("  input case {case} ({}): CMD exits 1; invocations received {counts:?} paths; -print0 after the action printed {} of {} entries (first missing: {missing:?}); exit {rc}",
                      ["three files", "/ -maxdepth 0 -execdir", "7101 long paths"][case], printed.len(), want.len());
        }
        assert!(printed == want, "-exec ... {{}} + must be true for every entry, whatever CMD returns and whenever the batch is dispatched");
        assert!(delivered == want.len(), "every path delivered to exactly one invocation");
        assert!(rc != 0, "a failing invocation makes find's exit status non-zero");
    }
    #[test] fn e_exec_plus_true() { kani::explore(exec_plus_true_body) }

    fn exec_noexec_body() {
        let shebang = pick(2) == 1;
        let dir_mode = pick(2) == 1;
        let status = pick(2) as i32;
        let d = scratch("noexec");
        let sub = d.join("tree").join("sub dir");
        std::fs::create_dir_all(&sub).unwrap();
        std::fs::write(sub.join("data.txt"), "INNER").unwrap();
        // a decoy of the same name in the directory find itself runs in
        let here = std::env::current_dir().unwrap();
        let log = d.join("log");
        let tool = d.join("tool");
        script(&tool, &format!("{}printf '%s|%s|' \"$(pwd)\" \"$1\" >> '{l}'; cat \"$1\" >> '{l}' 2>/dev/null; printf '\\n' >> '{l}'; exit {status}\n", if shebang { "#!/bin/sh\n" } else { "" }, l = log.display()));
        let root = d.join("tree");
        let (rc, out) = run(&["find", root.to_str().unwrap(), "-type", "f", if dir_mode { "-execdir" } else { "-exec" }, tool.to_str().unwrap(), "{}", ";", "-print0"]);
        let recs: Vec<String> = std::fs::read_to_string(&log).unwrap_or_default().lines().map(|s| s.to_string()).collect();
        let printed = !out.is_empty();
        let want_rec = if dir_mode { format!("{}|./data.txt|INNER", sub.display()) } else { format!("{}|{}|INNER", here.display(), sub.join("data.txt").display()) };
        let _ = std::fs::remove_dir_all(&d);
        let ok_recs = recs.is_empty() || recs == vec![want_rec.clone()];
        let ran_ok = recs.len() == 1 && status == 0;
        if !ok_recs || printed != ran_ok || rc != 0 || (shebang && recs.is_empty()) {
            eprintln!("  input CMD = executable text file {} a #! line exiting {status}, {}: CMD logged {recs:?} (expected nothing or [{want_rec:?}]); entry printed after the action: {printed}; exit {rc}",
                      if shebang { "with" } else { "without" }, if dir_mode { "-execdir" } else { "-exec" });
        }
        assert!(ok_recs, "CMD ran with another working directory, another path, or more than once");
        assert!(!(shebang && recs.is_empty()), "a runnable CMD did not run");
        assert!(printed == ran_ok, "the action is true exactly when CMD ran and exited 0");
        assert!(rc == 0, "a failing or unrunnable CMD does not change find's exit status");
    }
    #[test] fn e_exec_noexec() { kani::explore(exec_noexec_body) }

    fn listing(root: &Path, out: &mut Vec<OsString>) {
        out.push(root.as_os_str().to_owned());
        if let Ok(md) = std::fs::symlink_metadata(root) { if md.is_dir() { let mut k: Vec<PathBuf> = std::fs::read_dir(root).unwrap().map(|e| e.unwrap().path()).collect(); k.sort(); for c in k { listing(&c, out); } } }
    }
    fn prefix_tree(d: &Path) {
        std::fs::create_dir_all(d.join("cache.d/keep")).unwrap();
        std::fs::create_dir_all(d.join("cache/sub")).unwrap();
        for f in ["cache.d/keep/precious", "cache.d/junk", "cache/sub/f", "cache/g"] { std::fs::write(d.join(f), "").unwrap(); }
    }
    fn delete_prefix_roots_body() {
        let tests: [&[&str]; 3] = [&["!", "-name", "precious"], &["-true"], &["-type", "d"]];
        let test = tests[pick(3)];
        let order = pick(2);
        let (da, db) = (scratch("dpA"), scratch("dpB"));
        prefix_tree(&da);
        prefix_tree(&db);
        let roots = |d: &Path| -> Vec<String> { let mut v = vec![d.join("cache.d").to_str().unwrap().to_string(), d.join("cache").to_str().unwrap().to_string()]; if order == 1 { v.reverse(); } v };
        let (ra, rb) = (roots(&da), roots(&db));
        let mut args_b: Vec<&str> = vec!["find"];
        args_b.extend(rb.iter().map(|s| s.as_str()));
        args_b.push("-depth");
        args_b.extend_from_slice(test);
        args_b.push("-print0");
        let (_rcb, outb) = run(&args_b);
        let reported: Vec<PathBuf> = outb.split(|&b| b == 0).filter(|s| !s.is_empty()).map(|s| da.join(Path::new(OsStr::from_bytes(s)).strip_prefix(&db).unwrap())).collect();
        let mut args_a: Vec<&str> = vec!["find"];
        args_a.extend(ra.iter().map(|s| s.as_str()));
        args_a.extend_from_slice(test);
        args_a.push("-delete");
        let mut before = Vec::new();
        listing(&da, &mut before);
        let (rca, _) = run(&args_a);
        let mut after = Vec::new();
        listing(&da, &mut after);
        let is_reported = |p: &Path| reported.iter().any(|r| r.as_path() == p);
        fn survives(p: &Path, all: &[OsString], is_reported: &dyn Fn(&Path) -> bool) -> bool {
            if !is_reported(p) { return true; }
            all.iter().any(|c| { let c = Path::new(c); c.parent() == Some(p) && survives(c, all, is_reported) })
        }
        let mut survivors: Vec<OsString> = Vec::new();
        let mut undeletable = false;
        for b in &before { let p = Path::new(b); if survives(p, &before, &is_reported) { survivors.push(b.clone()); if is_reported(p) { undeletable = true; } } }
        let _ = std::fs::remove_dir_all(&da);
        let _ = std::fs::remove_dir_all(&db);
        let show = |v: &Vec<OsString>| v.iter().map(|p| p.to_string_lossy().replace(da.to_str().unwrap(), "A")).collect::<Vec<_>>();
        if after != survivors || (rca != 0) != undeletable {
            eprintln!("  input find {} {:?} -delete\n  input entries left     {:?} (exit {rca})\n  input expected to stay {:?} (exit {})",
                      if order == 0 { "A/cache.d A/cache" } else { "A/cache A/cache.d" }, test, show(&after), show(&survivors), if undeletable { "non-zero" } else { "0" });
        }
        assert!(after == survivors, "-delete did not remove exactly what -depth EXPR -print reports");
        assert!((rca != 0) == undeletable, "exit status: non-zero iff an entry could not be removed");
    }
    #[test] fn e_delete_prefix_roots() { kani::explore(delete_prefix_roots_body) }

    fn daystart_position_body() {
        let tests: [&[&str]; 8] = [&["-mtime", "0"], &["-mtime", "1"], &["-mtime", "+0"], &["-mtime", "-1"], &["-mmin", "+600"], &["-mmin", "-600"], &["-mmin", "+1500"], &["-atime", "1"]];
        let test = tests[pick(8)];
        let form = pick(3);
        let d = scratch("dayst");
        let t = d.join("t");
        std::fs::create_dir(&t).unwrap();
        let now = SystemTime::now();
        for (name, age) in [("s30", 30u64), ("h01", 3600), ("h05", 5 * 3600), ("h11", 11 * 3600), ("h13", 13 * 3600), ("h23", 23 * 3600), ("h25", 25 * 3600), ("h30", 30 * 3600), ("h47", 47 * 3600), ("h49", 49 * 3600)] {
            let f = std::fs::File::create(t.join(name)).unwrap();
            let ts = now - Duration::from_secs(age);
            f.set_times(std::fs::FileTimes::new().set_accessed(ts).set_modified(ts)).unwrap();
        }
        let ts = t.to_str().unwrap();
        let mut base: Vec<&str> = vec!["find", ts, "-sorted", "-type", "f"];
        base.extend_from_slice(test);
        let mut plain = base.clone();
        plain.push("-print0");
        let mut later: Vec<&str> = base.clone();
        match form {
            0 => later.extend_from_slice(&["-daystart", "-print0"]),
            1 => { later = vec!["find", ts, "-sorted", "-type", "f", "("]; later.extend_from_slice(test); later.extend_from_slice(&["-print0", ")", "-o", "(", "-daystart", "-false", ")"]); }
            _ => later.extend_from_slice(&["!", "-name", "-daystart", "-print0"]),
        }
        let (rc1, out1) = run(&plain);
        let (rc2, out2) = run(&later);
        let _ = std::fs::remove_dir_all(&d);
        let names = |o: &Vec<u8>| o.split(|&b| b == 0).filter(|s| !s.is_empty()).map(|s| String::from_utf8_lossy(&s[s.len() - 3..]).into_owned()).collect::<Vec<_>>();
        if out1 != out2 || rc1 != rc2 {
            eprintln!("  input find T -type f {:?} -print0 selects {:?}\n  input {:?} selects {:?}", test, names(&out1), &later[2..], names(&out2));
        }
        assert!(out1 == out2 && rc1 == rc2, "a -daystart that does not precede the time test changed what it measures");
    }
    #[test] fn e_daystart_position() { kani::explore(daystart_position_body) }
    // ---- C02 / C18: a starting point that cannot be examined, under every depth window ----
    fn missing_root_body() {
        let maxd = pick(4); // 0: none, k: -maxdepth k-1
        let mind = pick(4); // 0: none, k: -mindepth k-1
        let pos = pick(3);  // where the missing starting point stands among a and b
        let d = scratch("missroot");
        for f in ["a/x", "b/y"] { std::fs::create_dir_all(d.join(f).parent().unwrap()).unwrap(); std::fs::write(d.join(f), "").unwrap(); }
        let (a, b, m) = (d.join("a").to_str().unwrap().to_string(), d.join("b").to_str().unwrap().to_string(), d.join("missing").to_str().unwrap().to_string());
        let mut good: Vec<String> = vec![a.clone(), b.clone()];
        let mut withm = good.clone();
        withm.insert(pos, m.clone());
        let mut tail: Vec<String> = vec!["-sorted".into()];
        if maxd > 0 { tail.push("-maxdepth".into()); tail.push((maxd - 1).to_string()); }
        if mind > 0 { tail.push("-mindepth".into()); tail.push((mind - 1).to_string()); }
        tail.push("-print0".into());
        let mk = |roots: &Vec<String>| -> Vec<String> { let mut v = vec!["find".to_string()]; v.extend(roots.iter().cloned()); v.extend(tail.iter().cloned()); v };
        let (a1, a2) = (mk(&good), mk(&withm));
        let (rc1, out1) = run(&a1.iter().map(|s| s.as_str()).collect::<Vec<_>>());
        let (rc2, out2) = run(&a2.iter().map(|s| s.as_str()).collect::<Vec<_>>());
        good.clear();
        let _ = std::fs::remove_dir_all(&d);
        let show = |o: &Vec<u8>| String::from_utf8_lossy(o).replace(d.to_str().unwrap(), "T").replace('\0', " ");
        if rc1 != 0 || out1 != out2 || rc2 == 0 {
            eprintln!("  input find T/a T/b {:?}: exit {rc1}, printed {}\n  input with T/missing as starting point #{}: exit {rc2}, printed {}", &tail, show(&out1), pos + 1, show(&out2));
        }
        assert!(rc1 == 0, "control run failed");
        assert!(out1 == out2, "a starting point that cannot be examined is never printed and does not change what the others report");
        assert!(rc2 != 0, "a starting point that cannot be examined makes the exit status non-zero, whatever -mindepth/-maxdepth say");
    }
    #[test] fn e_missing_root() { kani::explore(missing_root_body) }

    // ---- C11: the literal-time operand of -newerXt in a time zone with daylight saving ----
    // TZ is process-wide, so each case runs in a child: this test binary again, with TZ set, running only `inner_newer_t_tz`.
    #[test] fn inner_newer_t_tz() {
        let Ok(op) = std::env::var("VERIF_R7_OPERAND") else { return };
        let d = scratch(&format!("tzin-{}", std::process::id()));
        std::fs::write(d.join("f"), "").unwrap();
        let (rc, _) = run(&["find", d.to_str().unwrap(), "-newermt", &op]);
        let _ = std::fs::remove_dir_all(&d);
        eprintln!("VERIF-R7-INNER rc={rc}");
    }
    fn newer_t_tz_body() {
        let tzs = ["UTC0", "CET-1CEST,M3.5.0,M10.5.0/3", "EST5EDT,M3.2.0,M11.1.0", "Europe/Berlin", "America/New_York", "Australia/Lord_Howe"];
        let ops = ["mar 30, 2025 02:30:00", "oct 26, 2025 02:30:00", "mar 9, 2025 02:30:00", "nov 2, 2025 01:30:00", "jul 1, 2025 12:00:00", "2025-03-30 02:30:00", "2025-10-26 02:30:00"];
        let tz = tzs[pick(tzs.len())];
        let op = ops[pick(ops.len())];
        let exe = std::env::current_exe().unwrap();
        let o = std::process::Command::new(&exe).args(["--exact", "find::verif_enum_round7::inner_newer_t_tz", "--nocapture", "--test-threads", "1"])
            .env("TZ", tz).env("VERIF_R7_OPERAND", op).output().unwrap();
        let err = String::from_utf8_lossy(&o.stderr).into_owned();
        let ordinary = o.status.success() && err.contains("VERIF-R7-INNER rc=");
        if !ordinary {
            let line = err.lines().find(|l| l.contains("panicked")).unwrap_or("").to_string();
            let next = err.lines().skip_while(|l| !l.contains("panicked")).nth(1).unwrap_or("").to_string();
            eprintln!("  input TZ={tz:?} find T -newermt {op:?}: did not end with an ordinary exit status: {line} {next}");
        }
        assert!(ordinary, "find must end with an ordinary exit status for every operand in every time zone, never a panic");
    }
    #[test] fn e_newer_t_tz() { kani::explore(newer_t_tz_body) }
    // ---- C03: -prune takes effect the moment it is evaluated, whatever the rest of the expression yields ----
    fn prune_conjunction_body() {
        let forms: [&[&str]; 8] = [
            &["-name", "skip", "-prune", "-false", "-o", "-print0"],
            &["-name", "skip", "-prune", "-type", "f", "-o", "-print0"],
            &["(", "-name", "skip", "-prune", "-false", ")", ",", "-print0"],
            &["-name", "skip", "-prune", "-o", "-print0"],
            &["!", "(", "-name", "skip", "-prune", ")", "-print0"],
            &["-name", "skip", "-prune", "-name", "other", "-o", "-print0"],
            &["(", "-name", "skip", "-prune", "-o", "-true", ")", "-false", "-o", "-print0"],
            &["-name", "skip", "(", "-prune", ",", "-false", ")", "-o", "-print0"],
        ];
        let form = forms[pick(8)];
        let d = scratch("prunecj");
        let r = d.join("r");
        for f in ["a/f1", "a/sub/f2", "skip/inside", "skip/deep/deeper/x", "z/f3", "top"] {
            std::fs::create_dir_all(r.join(f).parent().unwrap()).unwrap();
            std::fs::write(r.join(f), "").unwrap();
        }
        let rs = r.to_str().unwrap();
        let mut with_prune: Vec<&str> = vec!["find", rs, "-sorted"];
        with_prune.extend_from_slice(form);
        // the same expression with -prune replaced by -true selects the same entries (both are true and print nothing) but walks everything
        let without: Vec<&str> = with_prune.iter().map(|&a| if a == "-prune" { "-true" } else { a }).collect();
        let (rc1, out1) = run(&with_prune);
        let (rc2, out2) = run(&without);
        let _ = std::fs::remove_dir_all(&d);
        let below = format!("{rs}/skip/");
        let want: Vec<&[u8]> = out2.split(|&b| b == 0).filter(|s| !s.is_empty() && !s.starts_with(below.as_bytes())).collect();
        let got: Vec<&[u8]> = out1.split(|&b| b == 0).filter(|s| !s.is_empty()).collect();
        if got != want || rc1 != 0 || rc2 != 0 {
            let show = |v: &Vec<&[u8]>| v.iter().map(|s| String::from_utf8_lossy(s).replace(rs, "r")).collect::<Vec<_>>();
            eprintln!("  input find r -sorted {:?}\n  input printed  {:?}\n  input expected {:?} (what the expression selects with -true for -prune, minus everything below r/skip)", form, show(&got), show(&want));
        }
        assert!(got == want, "-prune on a directory leaves out exactly its descendants, whatever the terms after it yield");
    }
    #[test] fn e_prune_conjunction() { kani::explore(prune_conjunction_body) }

    // ---- xargs cases that need their own PATH and stdin: run in a child (this test binary again, running only `inner_xargs`) ----
    #[test] fn inner_xargs() {
        let Ok(argv) = std::env::var("VERIF_R7_XARGS_ARGV") else { return };
        let args: Vec<&str> = argv.split('\u{1f}').collect();
        let rc = crate::xargs::xargs_main(&args);
        eprintln!("VERIF-R7-INNER rc={rc}");
    }
    /// (exit status of xargs_main, stderr) of `xargs ARGS` with the given PATH and standard input
    fn xargs_child(args: &[&str], path: &str, input: &[u8]) -> (Option<i32>, String) {
        use std::io::Write;
        let exe = std::env::current_exe().unwrap();
        let mut ch = std::process::Command::new(&exe).args(["--exact", "find::verif_enum_round7::inner_xargs", "--nocapture", "--test-threads", "1"])
            .env("PATH", path).env("VERIF_R7_XARGS_ARGV", args.join("\u{1f}")).stdin(std::process::Stdio::piped()).stdout(std::process::Stdio::null()).stderr(std::process::Stdio::piped()).spawn().unwrap();
        ch.stdin.take().unwrap().write_all(input).unwrap();
        let o = ch.wait_with_output().unwrap();
        let err = String::from_utf8_lossy(&o.stderr).into_owned();
        let rc = err.lines().find_map(|l| l.strip_prefix("VERIF-R7-INNER rc=").and_then(|v| v.trim().parse::<i32>().ok()));
        (rc, err)
    }
    // C04 / C06: the command xargs runs is the command as given (what the size limiters were charged for)
    fn argv0_body() {
        let depth = pick(2); // the directory on PATH: short, or about 1200 bytes long
        let d = scratch("argv0");
        let mut bin = d.join("bin");
        if depth == 1 { for _ in 0..5 { bin = bin.join("p".repeat(240)); } }
        std::fs::create_dir_all(&bin).unwrap();
        std::os::unix::fs::symlink("/bin/sh", bin.join("verif-r7-sh")).unwrap();
        let log = d.join("log");
        let path = format!("{}:{}", bin.display(), std::env::var("PATH").unwrap_or_default());
        let sc = format!("printf '%s' \"$0\" >> '{}'", log.display());
        let (rc, err) = xargs_child(&["xargs", "-I{}", "verif-r7-sh", "-c", &sc], &path, b"x\n");
        let got = std::fs::read_to_string(&log).unwrap_or_default();
        let _ = std::fs::remove_dir_all(&d);
        let ok = rc == Some(0) && got == "verif-r7-sh";
        if !ok { eprintln!("  input a command given as the bare name verif-r7-sh, found through a PATH directory of {} bytes: the child saw argv[0] = {:?} (expected the name as given), exit {rc:?}; {}", bin.as_os_str().len(), got, err.lines().find(|l| l.contains("Error")).unwrap_or("")); }
        assert!(ok, "each invocation begins with the unchanged command: argv[0] is the command as given, which is what the size limiters were charged for");
    }
    #[test] fn e_argv0_as_given() { kani::explore(argv0_body) }
    // C19: a command is run and its outcome counted whatever it is called - also when it is called echo
    fn echo_command_body() {
        let case = pick(4); // the `echo` that PATH resolves to: none at all; exits 3; exits 255; exits 0
        let with_arg = pick(2) == 1; // `xargs echo` / `xargs echo fixed`
        let d = scratch("echocmd");
        let bin = d.join("bin");
        std::fs::create_dir_all(&bin).unwrap();
        let log = d.join("log");
        if case > 0 { script(&bin.join("echo"), &format!("#!/bin/sh\nprintf 'run\\n' >> '{}'\nexit {}\n", log.display(), [0, 3, 255, 0][case])); }
        // /bin/sh for the shim's interpreter is given by absolute path; PATH holds nothing but the shim's directory
        let mut args = vec!["xargs", "-n2", "echo"];
        if with_arg { args.push("fixed"); }
        let (rc, err) = xargs_child(&args, bin.to_str().unwrap(), b"a b c d\n");
        let runs = std::fs::read_to_string(&log).unwrap_or_default().lines().count();
        let _ = std::fs::remove_dir_all(&d);
        let (want_rc, want_runs) = [(127, 0), (123, 2), (124, 1), (0, 2)][case];
        if rc != Some(want_rc) || runs != want_runs {
            eprintln!("  input printf 'a b c d\\n' | PATH=<a directory where echo {}> {}: exit {rc:?}, echo ran {runs} times (expected exit {want_rc}, {want_runs} runs); {}",
                      ["does not exist", "is a script exiting 3", "is a script exiting 255", "is a script exiting 0"][case], args.join(" "), err.lines().find(|l| l.contains("Error")).unwrap_or(""));
        }
        assert!(runs == want_runs, "the command given is run for every batch (and no further after status 255), also when it is called echo");
        assert!(rc == Some(want_rc), "xargs' exit status is the documented function of the command's outcomes");
    }
    #[test] fn e_echo_is_a_command() { kani::explore(echo_command_body) }
}
