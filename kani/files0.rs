//@ kani files0
//@ append src/find/matchers/mod.rs
//@ module verif_kani_files0
//@ paste split src/find/matchers/mod.rs slice:fn:parse_files0_args@@let mut buffer_split: Vec<&\[u8\]> =@@<new_paths\.extend\(string_segments\);
//@ harness e_files0_names kind=enum props=C18 bound=<<every -files0-from content of 0..=5 bytes over the alphabet NUL, newline, blank, '-', 'a' (3906 streams)>> label=<<the starting points taken from -files0-from are exactly the NUL-separated names in order; a final NUL adds no name; empty names are skipped and nothing else is (names made of blanks or newlines, or starting with '-', are kept as they are)>>
// The splitting statements of parse_files0_args (between reading the file and extending new_paths) are pasted verbatim from the
// real source on every run; dropped: the File/stdin read before them and the `new_paths.extend` after them.
#[cfg(verif_replay)]
mod verif_kani_files0 {
//@SHIM@
    fn names_of(buffer: Vec<u8>) -> Vec<String> {
        /*@PASTE split@*/
        string_segments
    }
    fn body() {
        let n = pick(6);
        let mut buffer: Vec<u8> = Vec::new();
        for _ in 0..n { buffer.push([0u8, b'\n', b' ', b'-', b'a'][pick(5)]); }
        // the statement: NUL-separated names in order, empty ones skipped, a final NUL only terminates the last name
        let mut want: Vec<Vec<u8>> = Vec::new();
        let mut cur: Vec<u8> = Vec::new();
        for &b in &buffer {
            if b == 0 { if !cur.is_empty() { want.push(std::mem::take(&mut cur)); } } else { cur.push(b); }
        }
        if !cur.is_empty() { want.push(cur); }
        let got = names_of(buffer.clone());
        let got_b: Vec<Vec<u8>> = got.iter().map(|s| s.as_bytes().to_vec()).collect();
        if got_b != want { eprintln!("  input -files0-from bytes: {:?}\n  input starting points taken: {:?}\n  input expected: {:?}", buffer, got, want.iter().map(|w| String::from_utf8_lossy(w).into_owned()).collect::<Vec<_>>()); }
        assert!(got_b == want, "starting points differ from the NUL-separated non-empty names");
    }
    #[test] fn e_files0_names() { kani::explore(body) }
}
