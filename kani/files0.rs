//@ kani files0
//@ append src/find/matchers/mod.rs
//@ module verif_kani_files0
//@ paste split src/find/matchers/mod.rs slice:fn:parse_files0_args@@let mut buffer_split: Vec<&\[u8\]> =@@<new_paths\.extend\(string_segments\);
//@ harness e_files0_names kind=enum props=C18 thorough_bound=<<every -files0-from content of 0..=7 bytes over the alphabet NUL, newline, blank, '-', 'a' (97656 streams)>> bound=<<every -files0-from content of 0..=5 bytes over the alphabet NUL, newline, blank, '-', 'a' (3906 streams)>> label=<<the starting points taken from -files0-from are exactly the NUL-separated names in order; a final NUL adds no name; empty names are skipped and nothing else is (names made of blanks or newlines, or starting with '-', are kept as they are)>>
//@ harness e_files0_sources kind=enum props=C18 bound=<<the name list d2, d1, missing (NUL-separated, with and without a final NUL) given as a regular file and through a FIFO, against the same names as operands, on a real tree>> label=<<-files0-from FILE walks exactly the starting points that giving the names as operands walks, in the same order with the same exit status, whatever kind of file FILE is>>
// The splitting statements of parse_files0_args (between reading the file and extending new_paths) are pasted verbatim from the
// real source on every run; dropped: the File/stdin read before them and the `new_paths.extend` after them.
#[cfg(verif_replay)]
mod verif_kani_files0 {
//@SHIM@
    fn names_of(buffer: Vec<u8>) -> Vec<String> {
        /*@PASTE split@*/
        string_segments
    }
    fn body() {
        let n = pick(if deep() { 8 } else { 6 });
        let mut buffer: Vec<u8> = Vec::new();
        for _ in 0..n { buffer.push([0u8, b'\n', b' ', b'-', b'a'][pick(5)]); }
        // the statement: NUL-separated names in order, empty ones skipped, a final NUL only terminates the last name
        let mut want: Vec<Vec<u8>> = Vec::new();
        let mut cur: Vec<u8> = Vec::new();
        for &b in &buffer {
            if b == 0 { if !cur.is_empty() { want.push(std::mem::take(&mut cur)); } } else { cur.push(b); }
        }
        if !cur.is_empty() { want.push(cur); }
        let got = names_of(buffer.clone());
        let got_b: Vec<Vec<u8>> = got.iter().map(|s| s.as_bytes().to_vec()).collect();
        if got_b != want { eprintln!("  input -files0-from bytes: {:?}\n  input starting points taken: {:?}\n  input expected: {:?}", buffer, got, want.iter().map(|w| String::from_utf8_lossy(w).into_owned()).collect::<Vec<_>>()); }
        assert!(got_b == want, "starting points differ from the NUL-separated non-empty names");
    }
    #[test] fn e_files0_names() { kani::explore(body) }

    fn sources_body() {
        use crate::find::tests::FakeDependencies;
        use std::io::Write;
        let d = std::env::temp_dir().join(format!("verif-enum-files0-{}", std::process::id()));
        let _ = std::fs::remove_dir_all(&d);
        for n in ["d1", "d2"] { std::fs::create_dir_all(d.join(n)).unwrap(); std::fs::write(d.join(n).join("f"), "").unwrap(); }
        let fifo = pick(2) == 1;
        let final_nul = pick(2) == 1;
        let names = [d.join("d2"), d.join("d1"), d.join("missing")];
        let mut list: Vec<u8> = Vec::new();
        for (i, n) in names.iter().enumerate() { list.extend_from_slice(n.to_str().unwrap().as_bytes()); if i + 1 < names.len() || final_nul { list.push(0); } }
        let src = d.join("list");
        let run = |args: &[&str]| { let deps = FakeDependencies::new(); let rc = crate::find::find_main(args, &deps); let out = deps.output.borrow().get_ref().clone(); (rc, out) };
        let (rc_f, out_f) = if fifo {
            let c = std::ffi::CString::new(src.to_str().unwrap()).unwrap();
            assert!(unsafe { uucore::libc::mkfifo(c.as_ptr(), 0o600) } == 0);
            let (p2, l2) = (src.clone(), list.clone());
            let w = std::thread::spawn(move || { let mut f = std::fs::OpenOptions::new().write(true).open(p2).unwrap(); f.write_all(&l2).unwrap(); });
            let r = run(&["find", "-files0-from", src.to_str().unwrap(), "-print0"]);
            w.join().unwrap();
            r
        } else {
            std::fs::write(&src, &list).unwrap();
            run(&["find", "-files0-from", src.to_str().unwrap(), "-print0"])
        };
        let (rc_o, out_o) = run(&["find", names[0].to_str().unwrap(), names[1].to_str().unwrap(), names[2].to_str().unwrap(), "-print0"]);
        let _ = std::fs::remove_dir_all(&d);
        if out_f != out_o || (rc_f != 0) != (rc_o != 0) { eprintln!("  input -files0-from a {} ({} final NUL): printed {:?} (exit {rc_f}); as operands: {:?} (exit {rc_o})", if fifo { "FIFO" } else { "regular file" }, if final_nul { "with" } else { "without" }, String::from_utf8_lossy(&out_f), String::from_utf8_lossy(&out_o)); }
        assert!(out_f == out_o, "-files0-from differs from giving the names as operands");
        assert!((rc_f != 0) == (rc_o != 0), "exit status");
    }
    #[test] fn e_files0_sources() { kani::explore(sources_body) }
}
