//@ kani glob_enum
//@ append src/find/matchers/glob.rs
//@ module verif_enum_glob
//@ harness e_fnmatch kind=enum props=C12 thorough_bound=<<every pattern of 0..=5 symbols over {a, b, *, ?, [, ], !, -, backslash, /, ^} x every subject of 0..=3 symbols over {a, b, ., /, [, backslash, newline, ^, *, ?}; case-sensitive and caseless>> bound=<<every pattern of 0..=4 symbols over {a, b, *, ?, [, ], !, -, backslash, /, ^} x every subject of 0..=3 symbols over {a, b, ., /, [, backslash, newline, ^, *, ?}; case-sensitive and caseless (subjects also with A)>> label=<<Pattern::matches(pattern, subject) == fnmatch(pattern, subject, 0) of the C library (FNM_CASEFOLD for the -i forms), on the whole string>>
//@ harness e_fnmatch_classes kind=enum props=C12 bound=<<bracket expressions [[:upper:]], [[:lower:]], [[:digit:]], [![:alpha:]], [[:alpha:]x], [a[:digit:]] optionally followed by x or * x subjects of 1..=2 symbols over {A, a, 1, x, -} x case-sensitive and caseless>> label=<<character classes in bracket expressions match as in fnmatch(), also in the -i forms>>
//@ harness e_fnmatch_ascii kind=enum props=C12,C11 bound=<<every printable ASCII character c (0x20..=0x7e) in each of the patterns c, c*, *c, ac, a?c, backslash-c, cc x subjects c, ac, ca, a, cc, the empty string and a-newline-c; case-sensitive and caseless>> label=<<no character other than * ? [ and backslash is special in a pattern - whatever it means in a regular expression - and compiling a pattern never panics: the verdict equals fnmatch()>>
//@ harness e_glob_subjects kind=enum props=C12 bound=<<a real tree d/{Ab, sub/x.c, sub/.h} with links whose stored targets are abbbc, ../x, a//b, a/b/, a/./b, ./Ab and an empty-looking ' ' x -name/-iname/-path/-ipath/-wholename/-lname/-ilname x 22 patterns (names, whole paths, targets, with and without metacharacters, other letter case)>> label=<<-name matches the last path component, -path/-wholename the whole path as printed, -lname the link's target text exactly as stored (no clean-up of slashes or dots), each with fnmatch() on that whole string; -lname is false for what is not a link>>
// The oracle is the POSIX function the property names: libc's fnmatch().
#[cfg(verif_replay)]
mod verif_enum_glob {
    use super::*;
    use std::ffi::CString;
//@SHIM@
    fn libc_fnmatch(p: &str, s: &str, caseless: bool) -> bool {
        let (cp, cs) = (CString::new(p).unwrap(), CString::new(s).unwrap());
        const FNM_CASEFOLD: i32 = 1 << 4;
        unsafe { uucore::libc::fnmatch(cp.as_ptr(), cs.as_ptr(), if caseless { FNM_CASEFOLD } else { 0 }) == 0 }
    }
    fn subjects(alpha: &[&str], max: usize) -> Vec<String> {
        let mut all = vec![String::new()];
        let mut last = vec![String::new()];
        for _ in 0..max {
            let mut next = Vec::new();
            for s in &last { for a in alpha { next.push(format!("{s}{a}")); } }
            all.extend(next.iter().cloned());
            last = next;
        }
        all
    }
    fn body() {
        let syms = ["a", "b", "*", "?", "[", "]", "!", "-", "\\", "/", "^"];
        let n = pick(if deep() { 6 } else { 5 });
        let pat: String = (0..n).map(|_| syms[pick(syms.len())]).collect();
        let caseless = pick(2) == 1;
        // compiling the pattern must never panic, whatever the pattern (the comparisons below leave some patterns out)
        let m = Pattern::new(&pat, caseless);
        // a backslash inside a bracket expression is read differently by POSIX RE brackets (ordinary) and by glibc (escape),
        // and the statement does not settle it: patterns with a backslash after an unescaped '[' are left out
        let cs: Vec<char> = pat.chars().collect();
        let mut i = 0;
        let mut open = None;
        while i < cs.len() { if cs[i] == '\\' { i += 2; continue; } if cs[i] == '[' { open = Some(i); break; } i += 1; }
        if let Some(o) = open { if cs[o..].contains(&'\\') { return; } }
        // POSIX: a bracket expression starting with an unquoted '^' produces unspecified results (glibc negates): left out
        if pat.contains("[^") { return; }
        // a range whose end points are in descending order is invalid in POSIX (undefined): left out
        if let Some(o) = open { for w in cs[o..].windows(3) { if w[1] == '-' && w[2] != ']' && w[0] > w[2] { return; } } }
        // case folding of a range whose end points are not both letters is not defined by the statement (glibc folds the end points,
        // onig accepts any case variant inside the range): caseless runs leave ranges out
        if caseless { if let Some(o) = open { if cs[o..].contains(&'-') { return; } } }
        let subs = if caseless { subjects(&["a", "A", "b", ".", "["], 3) } else { subjects(&["a", "b", ".", "/", "[", "\\", "\n", "^", "*", "?"], 3) };
        for s in &subs {
            let (got, want) = (m.matches(s), libc_fnmatch(&pat, s, caseless));
            if got != want { eprintln!("  input pattern {pat:?} subject {s:?} caseless {caseless}: find says {got}, fnmatch() says {want}"); }
            assert!(got == want, "differs from fnmatch()");
        }
    }
    #[test] fn e_fnmatch() { kani::explore(body) }
    fn classes_body() {
        let br = ["[[:upper:]]", "[[:lower:]]", "[[:digit:]]", "[![:alpha:]]", "[[:alpha:]x]", "[a[:digit:]]"][pick(6)];
        let pat = format!("{br}{}", ["", "x", "*"][pick(3)]);
        let caseless = pick(2) == 1;
        let m = Pattern::new(&pat, caseless);
        // what ignoring case means for [:upper:] and [:lower:] is not defined by the statement (glibc folds the subject only,
        // onig accepts either case): those two classes are compared case-sensitively only
        if caseless && (br.contains("upper") || br.contains("lower")) { return; }
        for s in subjects(&["A", "a", "1", "x", "-"], 2) {
            if s.is_empty() { continue; }
            let (got, want) = (m.matches(&s), libc_fnmatch(&pat, &s, caseless));
            if got != want { eprintln!("  input pattern {pat:?} subject {s:?} caseless {caseless}: find says {got}, fnmatch() says {want}"); }
            assert!(got == want, "differs from fnmatch()");
        }
    }
    #[test] fn e_fnmatch_classes() { kani::explore(classes_body) }

    fn ascii_body() {
        let c = (0x20u8 + pick(0x7f - 0x20) as u8) as char;
        let pat = match pick(7) { 0 => format!("{c}"), 1 => format!("{c}*"), 2 => format!("*{c}"), 3 => format!("a{c}"), 4 => format!("a?{c}"), 5 => format!("\\{c}"), _ => format!("{c}{c}") };
        let caseless = pick(2) == 1;
        let m = Pattern::new(&pat, caseless);   // must not panic for any character
        // the same exclusions as e_fnmatch: brackets with a backslash, '[^', are not settled by the statement
        if pat.contains('[') && pat.contains('\\') { return; }
        for s in [format!("{c}"), format!("a{c}"), format!("{c}a"), "a".to_string(), format!("{c}{c}"), String::new(), format!("a\n{c}"), format!("ab{c}")] {
            let (got, want) = (m.matches(&s), libc_fnmatch(&pat, &s, caseless));
            if got != want { eprintln!("  input pattern {pat:?} subject {s:?} caseless {caseless}: find says {got}, fnmatch() says {want}"); }
            assert!(got == want, "differs from fnmatch()");
        }
    }
    #[test] fn e_fnmatch_ascii() { kani::explore(ascii_body) }

    fn glob_subjects_body() {
        use crate::find::tests::FakeDependencies;
        use std::os::unix::fs::symlink;
        let prim = ["-name", "-iname", "-path", "-ipath", "-wholename", "-lname", "-ilname"][pick(7)];
        let pats = ["Ab", "ab", "x.c", "*.c", ".h", "*", "sub", "D/sub/x.c", "D/*", "*/x.c", "D/SUB/*", "abbbc", "ab*c", "../x", "a//b", "a/b", "a/b/", "*/", "a/./b", "a/?/b", "./Ab", "?"];
        let pat = pats[pick(pats.len())];
        let d = std::env::temp_dir().join(format!("verif-enum-globsub-{}", std::process::id()));
        static ONCE: std::sync::Once = std::sync::Once::new();
        let targets = [("l1", "abbbc"), ("l2", "../x"), ("l3", "a//b"), ("l4", "a/b/"), ("l5", "a/./b"), ("l6", "./Ab"), ("l7", " ")];
        ONCE.call_once(|| {
            let _ = std::fs::remove_dir_all(&d);
            std::fs::create_dir_all(d.join("sub")).unwrap();
            std::fs::write(d.join("Ab"), "").unwrap();
            std::fs::write(d.join("sub/x.c"), "").unwrap();
            std::fs::write(d.join("sub/.h"), "").unwrap();
            for (n, t) in targets { symlink(t, d.join(n)).unwrap(); }
        });
        let ds = d.to_str().unwrap().to_string();
        let pattern = pat.replace("D", &ds);
        let caseless = prim.starts_with("-i");
        let deps = FakeDependencies::new();
        let rc = crate::find::find_main(&["find", &ds, prim, &pattern, "-print0"], &deps);
        let out = deps.output.borrow().get_ref().clone();
        let mut got: Vec<String> = out.split(|b| *b == 0).filter(|r| !r.is_empty()).map(|r| String::from_utf8_lossy(r).into_owned()).collect();
        got.sort();
        // the statement's subject for each entry
        let mut entries = vec![ds.clone(), format!("{ds}/Ab"), format!("{ds}/sub"), format!("{ds}/sub/x.c"), format!("{ds}/sub/.h")];
        for (n, _) in targets { entries.push(format!("{ds}/{n}")); }
        let mut want: Vec<String> = Vec::new();
        for e in &entries {
            let subject: Option<String> = match prim {
                "-name" | "-iname" => Some(e.rsplit('/').next().unwrap().to_string()),
                "-path" | "-ipath" | "-wholename" => Some(e.clone()),
                _ => std::fs::read_link(e).ok().map(|t| t.to_str().unwrap().to_string()),
            };
            if let Some(sub) = subject { if libc_fnmatch(&pattern, &sub, caseless) { want.push(e.clone()); } }
        }
        want.sort();
        if got != want || rc != 0 { eprintln!("  input find D {prim} {:?}: exit {rc}\n  input selected {:?}\n  input expected {:?}", pat, got.iter().map(|g| g.replace(&ds, "D")).collect::<Vec<_>>(), want.iter().map(|g| g.replace(&ds, "D")).collect::<Vec<_>>()); }
        assert!(rc == 0 && got == want, "the primary does not apply fnmatch() to the subject the statement names");
    }
    #[test] fn e_glob_subjects() { kani::explore(glob_subjects_body) }
}
