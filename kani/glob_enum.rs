//@ kani glob_enum
//@ append src/find/matchers/glob.rs
//@ module verif_enum_glob
//@ harness e_fnmatch kind=enum props=C12 thorough_bound=<<every pattern of 0..=5 symbols over {a, b, *, ?, [, ], !, -, backslash, /, ^} x every subject of 0..=3 symbols over {a, b, ., /, [, backslash, newline, ^, *, ?}; case-sensitive and caseless>> bound=<<every pattern of 0..=4 symbols over {a, b, *, ?, [, ], !, -, backslash, /, ^} x every subject of 0..=3 symbols over {a, b, ., /, [, backslash, newline, ^, *, ?}; case-sensitive and caseless (subjects also with A)>> label=<<Pattern::matches(pattern, subject) == fnmatch(pattern, subject, 0) of the C library (FNM_CASEFOLD for the -i forms), on the whole string>>
//@ harness e_fnmatch_classes kind=enum props=C12 bound=<<bracket expressions [[:upper:]], [[:lower:]], [[:digit:]], [![:alpha:]], [[:alpha:]x], [a[:digit:]] optionally followed by x or * x subjects of 1..=2 symbols over {A, a, 1, x, -} x case-sensitive and caseless>> label=<<character classes in bracket expressions match as in fnmatch(), also in the -i forms>>
// The oracle is the POSIX function the property names: libc's fnmatch().
#[cfg(verif_replay)]
mod verif_enum_glob {
    use super::*;
    use std::ffi::CString;
//@SHIM@
    fn libc_fnmatch(p: &str, s: &str, caseless: bool) -> bool {
        let (cp, cs) = (CString::new(p).unwrap(), CString::new(s).unwrap());
        const FNM_CASEFOLD: i32 = 1 << 4;
        unsafe { uucore::libc::fnmatch(cp.as_ptr(), cs.as_ptr(), if caseless { FNM_CASEFOLD } else { 0 }) == 0 }
    }
    fn subjects(alpha: &[&str], max: usize) -> Vec<String> {
        let mut all = vec![String::new()];
        let mut last = vec![String::new()];
        for _ in 0..max {
            let mut next = Vec::new();
            for s in &last { for a in alpha { next.push(format!("{s}{a}")); } }
            all.extend(next.iter().cloned());
            last = next;
        }
        all
    }
    fn body() {
        let syms = ["a", "b", "*", "?", "[", "]", "!", "-", "\\", "/", "^"];
        let n = pick(if deep() { 6 } else { 5 });
        let pat: String = (0..n).map(|_| syms[pick(syms.len())]).collect();
        let caseless = pick(2) == 1;
        // compiling the pattern must never panic, whatever the pattern (the comparisons below leave some patterns out)
        let m = Pattern::new(&pat, caseless);
        // a backslash inside a bracket expression is read differently by POSIX RE brackets (ordinary) and by glibc (escape),
        // and the statement does not settle it: patterns with a backslash after an unescaped '[' are left out
        let cs: Vec<char> = pat.chars().collect();
        let mut i = 0;
        let mut open = None;
        while i < cs.len() { if cs[i] == '\\' { i += 2; continue; } if cs[i] == '[' { open = Some(i); break; } i += 1; }
        if let Some(o) = open { if cs[o..].contains(&'\\') { return; } }
        // POSIX: a bracket expression starting with an unquoted '^' produces unspecified results (glibc negates): left out
        if pat.contains("[^") { return; }
        // a range whose end points are in descending order is invalid in POSIX (undefined): left out
        if let Some(o) = open { for w in cs[o..].windows(3) { if w[1] == '-' && w[2] != ']' && w[0] > w[2] { return; } } }
        // case folding of a range whose end points are not both letters is not defined by the statement (glibc folds the end points,
        // onig accepts any case variant inside the range): caseless runs leave ranges out
        if caseless { if let Some(o) = open { if cs[o..].contains(&'-') { return; } } }
        let subs = if caseless { subjects(&["a", "A", "b", ".", "["], 3) } else { subjects(&["a", "b", ".", "/", "[", "\\", "\n", "^", "*", "?"], 3) };
        for s in &subs {
            let (got, want) = (m.matches(s), libc_fnmatch(&pat, s, caseless));
            if got != want { eprintln!("  input pattern {pat:?} subject {s:?} caseless {caseless}: find says {got}, fnmatch() says {want}"); }
            assert!(got == want, "differs from fnmatch()");
        }
    }
    #[test] fn e_fnmatch() { kani::explore(body) }
    fn classes_body() {
        let br = ["[[:upper:]]", "[[:lower:]]", "[[:digit:]]", "[![:alpha:]]", "[[:alpha:]x]", "[a[:digit:]]"][pick(6)];
        let pat = format!("{br}{}", ["", "x", "*"][pick(3)]);
        let caseless = pick(2) == 1;
        let m = Pattern::new(&pat, caseless);
        // what ignoring case means for [:upper:] and [:lower:] is not defined by the statement (glibc folds the subject only,
        // onig accepts either case): those two classes are compared case-sensitively only
        if caseless && (br.contains("upper") || br.contains("lower")) { return; }
        for s in subjects(&["A", "a", "1", "x", "-"], 2) {
            if s.is_empty() { continue; }
            let (got, want) = (m.matches(&s), libc_fnmatch(&pat, &s, caseless));
            if got != want { eprintln!("  input pattern {pat:?} subject {s:?} caseless {caseless}: find says {got}, fnmatch() says {want}"); }
            assert!(got == want, "differs from fnmatch()");
        }
    }
    #[test] fn e_fnmatch_classes() { kani::explore(classes_body) }
}
