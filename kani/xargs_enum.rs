//@ kani xargs_enum
//@ append src/xargs/mod.rs
//@ module verif_enum_xargs
//@ harness e_ws_reader kind=enum props=C05 bound=<<every input of 0..=4 symbols over {a, blank, newline, ', ", backslash, e-acute (2 bytes)} x every way of cutting it into read() chunks>> label=<<WhitespaceDelimitedArgumentReader yields exactly the arguments of the statement's tokenizer (unquoted blanks/newlines split, quotes literal, backslash quotes one byte, '' is an empty argument, unterminated quote is an error), each marked as ending a line iff a newline terminated it, whatever the read() chunking>>
//@ harness e_byte_reader kind=enum props=C05,C07 bound=<<every input of 0..=4 symbols over {a, blank, newline, ', backslash, NUL, e-acute (2 bytes)} x delimiter NUL or newline x every way of cutting it into read() chunks>> label=<<ByteDelimitedArgumentReader yields exactly the non-empty delimiter-separated fields, byte for byte (no quote processing, multi-byte characters intact across chunk edges), in order, then None>>
//@ harness e_exit_status kind=enum props=C19 bound=<<every sequence of 0..=3 child outcomes over {exit 0, exit 3, exit 125, exit 255, killed by SIGKILL}, one invocation per input item (xargs -n1 -a FILE sh -c ...), real processes>> label=<<xargs_main returns 0 iff all exited 0, 123 when some exited 1..125 and all input was processed, 124 at once after an exit 255, 125 at once after a death by signal; no invocation runs after the stopping one>>
//@ harness e_cannot_run kind=enum props=C19 bound=<<commands: missing, file without execute permission, directory, executable file that is no program (ENOEXEC), dangling path through a non-directory (ENOTDIR)>> label=<<a command that cannot be found gives 127, one that exists but cannot be executed gives 126, whatever the errno>>
//@ harness e_replace kind=enum props=C20 bound=<<replacement strings {} / ab / RR; one initial argument of 1..=3 pieces over {R, first character of R, x}; input lines "l", "a b" and a line containing R; real processes recording their argv>> label=<<xargs -I R runs the command once per input line with every occurrence of R in the initial argument replaced by the whole line and nothing appended>>
// Exhaustive native enumeration (tools/kani_lane.py, kind=enum): the REAL readers / xargs_main, compiled by plain rustc, are run on
// every input of the stated domain and compared with an executable transcription of the property statement.
#[cfg(verif_replay)]
mod verif_enum_xargs {
    use super::*;
    use std::os::unix::ffi::OsStrExt;
//@SHIM@
    /// a reader that hands out its bytes in the chunks chosen by `cuts` (cuts[i]: a read() ends after byte i)
    struct Chunky { data: Vec<u8>, pos: usize, cuts: Vec<bool> }
    impl Read for Chunky {
        fn read(&mut self, buf: &mut [u8]) -> io::Result<usize> {
            let mut n = 0;
            while self.pos < self.data.len() && n < buf.len() {
                buf[n] = self.data[self.pos];
                n += 1;
                self.pos += 1;
                if self.cuts[self.pos - 1] { break; }
            }
            Ok(n)
        }
    }
    fn stream(alphabet: &[&[u8]], max: usize) -> Vec<u8> {
        let n = pick(max + 1);
        let mut v = Vec::new();
        for _ in 0..n { v.extend_from_slice(alphabet[pick(alphabet.len())]); }
        v
    }
    fn cuts(len: usize) -> Vec<bool> { (0..len).map(|i| i + 1 < len && pick(2) == 1).collect() }

    // ---- the statement's tokenizer (default mode) ----
    #[derive(Debug, PartialEq)]
    enum Want { Arg(Vec<u8>, bool), Unterminated }
    fn ref_tokens(s: &[u8]) -> Vec<Want> {
        let mut out = Vec::new();
        let mut cur: Vec<u8> = Vec::new();
        let mut started = false;
        let mut quote: Option<u8> = None;
        let mut slash = false;
        for &c in s {
            if let Some(q) = quote {
                if c == q { quote = None; } else { cur.push(c); }
            } else if slash { cur.push(c); slash = false; }
            else if c == b'"' || c == b'\'' { quote = Some(c); started = true; }
            else if c == b'\\' { slash = true; started = true; }
            else if c.is_ascii_whitespace() {
                if started { out.push(Want::Arg(std::mem::take(&mut cur), c == b'\n')); started = false; }
            } else { cur.push(c); started = true; }
        }
        if quote.is_some() { out.push(Want::Unterminated); } else if started { out.push(Want::Arg(cur, false)); }
        out
    }
    fn ws_body() {
        let data = stream(&[b"a", b" ", b"\n", b"'", b"\"", b"\\", "\u{e9}".as_bytes()], 4);
        let c = cuts(data.len());
        let want = ref_tokens(&data);
        let mut rd = WhitespaceDelimitedArgumentReader::new(Chunky { data: data.clone(), pos: 0, cuts: c.clone() });
        let mut got = Vec::new();
        loop {
            match rd.next() {
                Ok(Some(a)) => got.push(Want::Arg(a.arg.as_bytes().to_vec(), a.kind == ArgumentKind::HardTerminated)),
                Ok(None) => break,
                Err(_) => { got.push(Want::Unterminated); break; }
            }
            if got.len() > 16 { break; }
        }
        if got != want { eprintln!("  input bytes: {:?} = {:?}\n  input read() cuts after bytes: {:?}\n  input arguments read: {:?}\n  input expected:       {:?}", data, String::from_utf8_lossy(&data), c, got, want); }
        assert!(got == want, "arguments differ from the statement's tokenizer");
    }
    #[test] fn e_ws_reader() { kani::explore(ws_body) }

    fn byte_body() {
        let data = stream(&[b"a", b" ", b"\n", b"'", b"\\", b"\0", "\u{e9}".as_bytes()], 4);
        let d = [0u8, b'\n'][pick(2)];
        let c = cuts(data.len());
        let want: Vec<Vec<u8>> = data.split(|&b| b == d).filter(|f| !f.is_empty()).map(|f| f.to_vec()).collect();
        let mut rd = ByteDelimitedArgumentReader::new(Chunky { data: data.clone(), pos: 0, cuts: c.clone() }, d);
        let mut got: Vec<Vec<u8>> = Vec::new();
        let mut kinds_ok = true;
        loop {
            match rd.next() {
                Ok(Some(a)) => { kinds_ok &= a.kind == ArgumentKind::HardTerminated; got.push(a.arg.as_bytes().to_vec()); }
                Ok(None) => break,
                Err(_) => { got.push(b"<error>".to_vec()); break; }
            }
            if got.len() > 16 { break; }
        }
        if got != want { eprintln!("  input bytes: {:?}, delimiter {:?}\n  input read() cuts after bytes: {:?}\n  input fields read: {:?}\n  input expected:    {:?}", data, d, c, got, want); }
        assert!(got == want, "fields differ from the delimiter-separated non-empty fields");
        assert!(kinds_ok, "a field is not marked as terminated");
    }
    #[test] fn e_byte_reader() { kani::explore(byte_body) }

    // ---- real processes ----
    fn scratch(tag: &str) -> std::path::PathBuf {
        let d = std::env::temp_dir().join(format!("verif-enum-{}-{}", tag, std::process::id()));
        let _ = fs::remove_dir_all(&d);
        fs::create_dir_all(&d).unwrap();
        d
    }
    fn exit_body() {
        let n = pick(4);
        let outcomes: Vec<usize> = (0..n).map(|_| pick(5)).collect();
        let names = ["0", "3", "125", "255", "K"];
        let d = scratch("exit");
        let input = d.join("in");
        let log = d.join("log");
        fs::write(&input, outcomes.iter().map(|&o| format!("{}\n", names[o])).collect::<String>()).unwrap();
        fs::write(&log, "").unwrap();
        let script = format!("echo \"$1\" >> '{}'; case \"$1\" in K) kill -9 $$;; \"\") exit 0;; *) exit \"$1\";; esac", log.display());
        let rc = xargs_main(&["xargs", "-n1", "-a", input.to_str().unwrap(), "sh", "-c", &script, "sh"]);
        let ran = fs::read_to_string(&log).unwrap().lines().count();
        // the statement
        let (mut want_rc, mut want_ran, mut failed) = (0, 0, false);
        let mut stopped = false;
        for &o in &outcomes {
            want_ran += 1;
            match o { 0 => {}, 1 | 2 => failed = true, 3 => { want_rc = 124; stopped = true; break; }, _ => { want_rc = 125; stopped = true; break; } }
        }
        if !stopped { want_rc = if failed { 123 } else { 0 }; }
        if n == 0 { want_ran = 1; want_rc = 0; } // no input: the command still runs once (no -r), with no argument: `exit ""` is exit 0
        let _ = fs::remove_dir_all(&d);
        if (rc, ran) != (want_rc, want_ran) { eprintln!("  input child outcomes: {:?}\n  input xargs exit status {} after {} invocations, expected {} after {}", outcomes.iter().map(|&o| names[o]).collect::<Vec<_>>(), rc, ran, want_rc, want_ran); }
        assert!(rc == want_rc, "exit status is not the documented function of the outcomes");
        assert!(ran == want_ran, "an invocation ran after the one that must stop xargs, or one is missing");
    }
    #[test] fn e_exit_status() { kani::explore(exit_body) }

    fn cannot_run_body() {
        use std::os::unix::fs::PermissionsExt;
        let which = pick(5);
        let d = scratch("run");
        let input = d.join("in");
        fs::write(&input, "x\n").unwrap();
        let cmd = d.join("cmd");
        let want = match which {
            0 => 127, // missing
            1 => { fs::write(&cmd, "#!/bin/sh\nexit 0\n").unwrap(); fs::set_permissions(&cmd, fs::Permissions::from_mode(0o644)).unwrap(); 126 }
            2 => { fs::create_dir(&cmd).unwrap(); 126 }
            3 => { fs::write(&cmd, [0u8, 1, 2, 3]).unwrap(); fs::set_permissions(&cmd, fs::Permissions::from_mode(0o755)).unwrap(); 126 }
            _ => { fs::write(&cmd, "plain file").unwrap(); 126 }
        };
        let path = if which == 4 { cmd.join("below") } else { cmd.clone() };
        let rc = xargs_main(&["xargs", "-a", input.to_str().unwrap(), path.to_str().unwrap()]);
        let _ = fs::remove_dir_all(&d);
        if rc != want { eprintln!("  input command kind {} (0 missing, 1 no x bit, 2 directory, 3 not a program, 4 path through a file): exit status {}, expected {}", which, rc, want); }
        assert!(rc == want, "exit status for a command that cannot be run");
    }
    #[test] fn e_cannot_run() { kani::explore(cannot_run_body) }

    fn replace_body() {
        let r = ["{}", "ab", "RR"][pick(3)]; // none of them occurs in the recording script below
        let first = &r[..1];
        let pieces = [r, first, "x"];
        let np = 1 + pick(3);
        let template: String = (0..np).map(|_| pieces[pick(3)]).collect();
        let lines = ["l".to_string(), "a b".to_string(), format!("p{}q", r)];
        let d = scratch("repl");
        let input = d.join("in");
        let log = d.join("log");
        fs::write(&input, lines.iter().map(|l| format!("{}\n", l)).collect::<String>()).unwrap();
        fs::write(&log, "").unwrap();
        let script = format!("for a in \"$@\"; do printf '<%s>' \"$a\" >> '{}'; done; echo >> '{}'", log.display(), log.display());
        let rc = xargs_main(&["xargs", "-a", input.to_str().unwrap(), "-I", r, "sh", "-c", &script, "sh", &template, "fixed"]);
        let got = fs::read_to_string(&log).unwrap();
        let want: String = lines.iter().map(|l| format!("<{}><fixed>\n", template.replace(r, l))).collect();
        let _ = fs::remove_dir_all(&d);
        if got != want || rc != 0 { eprintln!("  input -I {:?}, initial argument {:?}, lines {:?}\n  input argv recorded: {:?}\n  input expected:      {:?} (exit {})", r, template, lines, got, want, rc); }
        assert!(rc == 0, "exit status");
        assert!(got == want, "argv per invocation differs from whole-line replacement of every occurrence");
    }
    #[test] fn e_replace() { kani::explore(replace_body) }
}
