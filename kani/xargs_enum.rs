//@ kani xargs_enum
//@ append src/xargs/mod.rs
//@ module verif_enum_xargs
//@ harness e_ws_reader kind=enum props=C05 thorough_bound=<<every input of 0..=5 symbols over {a, blank, newline, ', ", backslash, e-acute (2 bytes)} x every way of cutting it into read() chunks>> bound=<<every input of 0..=4 symbols over {a, blank, newline, ', ", backslash, e-acute and a-grave (2 bytes each; 0xA0 is the second byte of a-grave), vertical tab, the invalid UTF-8 byte 0xFF} x every way of cutting it into read() chunks>> label=<<WhitespaceDelimitedArgumentReader yields exactly the arguments of the statement's tokenizer (unquoted blanks/newlines split, quotes literal, backslash quotes one byte, '' is an empty argument, unterminated quote is an error), each marked as ending a line iff a newline terminated it, whatever the read() chunking>>
//@ harness e_byte_reader kind=enum props=C05,C07 thorough_bound=<<every input of 0..=5 symbols over {a, blank, newline, ', backslash, NUL, e-acute (2 bytes), 0xFF, carriage return} x delimiter NUL or newline x every way of cutting it into read() chunks>> bound=<<every input of 0..=4 symbols over {a, blank, newline, ', backslash, NUL, e-acute (2 bytes), the invalid UTF-8 byte 0xFF, carriage return} x delimiter NUL or newline x every way of cutting it into read() chunks>> label=<<ByteDelimitedArgumentReader yields exactly the non-empty delimiter-separated fields, byte for byte (no quote processing, multi-byte characters intact across chunk edges), in order, then None>>
//@ harness e_byte_reader_long kind=enum props=C05,C07,C20 bound=<<inputs of 1..=3 fields over {a, a field of 140000 bytes, a field of 20000 bytes, empty} separated by NUL, with and without a final NUL, read through the reader's own buffering>> label=<<a field reaches the command whole however long it is: ByteDelimitedArgumentReader never splits, truncates or merges fields>>
//@ harness e_system_budget kind=enum props=C06,C04 bound=<<environments of 0..=3 variables whose names and values have 0, 1 or 5 bytes (also multi-byte characters)>> label=<<the system limiter's budget is ARG_MAX - 2048 - the bytes execve charges for the environment: every NAME=value string with its terminating NUL>>
//@ harness e_null_items kind=enum props=C07,C20 bound=<<two items over {a, ' d', 'e ', f<newline>g, -h, 'q' in quotes, tab-led} separated by NUL x plain xargs -0 CMD or xargs -0 -I{} CMD {}; real processes>> label=<<xargs -0 hands every NUL-terminated item to the command as exactly one unmodified argument (leading and trailing blanks, newlines and quotes included), with or without -I>>
//@ harness e_delimiter kind=enum props=C05 bound=<<every -d operand of 1..=4 symbols over {backslash, 0, 1, 4, 7, 8, x, a, n, t, comma, e-acute}>> label=<<a delimiter operand is rejected or denotes exactly one byte: a single byte stands for itself, \\a \\b \\f \\n \\r \\t \\v \\\\ \\0 for their C meaning, \\xHH for that hex value, \\0ooo (and \\ooo if accepted at all) for that octal value; nothing else is accepted>>
//@ harness e_batching kind=enum props=C04,C19 thorough_bound=<<inputs of 0..=4 arguments, otherwise as quick>> bound=<<inputs of 0..=2 arguments of 1 or 3 bytes, each followed by a blank, a newline or blank+newline x (-n 1|2, -L 1|2 or neither) x (-s absent, or room for 3, 4 or 8 more bytes than the command itself) x -x on/off; -r on/off for empty input; real processes recording their argv>> label=<<the appended arguments of successive invocations concatenate to the input sequence, every invocation starts with the unchanged command and initial arguments and respects -n, -L (a line ending in a blank continues) and -s (every argument plus one terminator, command included) simultaneously, is maximal, empty input runs once without -r and never with it, an argument that cannot fit alone (or any -s overflow under -x with -n/-L) ends the run with exit status 1>>
//@ harness e_mode_select kind=enum props=C20 bound=<<every order of every choice of (-I{} or bare -i or neither) x (-n1, -n2 or neither) x (-L1 or not) x input empty or "a b / c", real processes recording their argv>> label=<<when -I/-i, -n and -L are combined the option given last decides the mode (-I with -n 1 and no -L is replace mode in either order); replace mode runs once per line with the whole line substituted and nothing appended and runs nothing for empty input; the other modes append arguments and run once for empty input>>
//@ harness e_exit_status kind=enum props=C19 thorough_bound=<<every sequence of 0..=4 child outcomes over {exit 0, exit 3, exit 125, exit 255, killed by SIGKILL}, one invocation per input item, real processes>> bound=<<every sequence of 0..=3 child outcomes over {exit 0, exit 3, exit 125, exit 255, killed by SIGKILL}, one invocation per input item (xargs -n1 -a FILE sh -c ...), and for empty input the single argument-less run exiting 0 or 3; real processes>> label=<<xargs_main returns 0 iff all exited 0, 123 when some exited 1..125 and all input was processed, 124 at once after an exit 255, 125 at once after a death by signal; no invocation runs after the stopping one>>
//@ harness e_cannot_run kind=enum props=C19 bound=<<commands: missing, file without execute permission, directory, executable file that is no program (ENOEXEC), dangling path through a non-directory (ENOTDIR)>> label=<<a command that cannot be found gives 127, one that exists but cannot be executed gives 126, whatever the errno>>
//@ harness e_replace kind=enum props=C20 bound=<<replacement strings {} / ab / RR; one initial argument of 1..=3 pieces over {R, first character of R, x}; input lines "l", "a b", a line containing R, and lines ending in a blank or a tab; real processes recording their argv>> label=<<xargs -I R runs the command once per input line with every occurrence of R in the initial argument replaced by the whole line and nothing appended>>
//@ harness e_delimiter_select kind=enum props=C05 bound=<<one of -0, --null, -d ',', --delimiter=';', or a NUL option and a delimiter option in either order x an input with blanks, a double quote, a single quote, a newline, ',' and ';' (and a NUL when NUL is the delimiter in effect); real processes recording their argv>> label=<<when several of -0/--null/-d/--delimiter are given the one given last names the single byte the input is split at; no quote, blank or newline processing takes place and every other byte reaches the command unchanged>>
//@ harness e_limit_override kind=enum props=C04,C20 bound=<<-L N and -n M given together in either order, (N, M) in {(1,3), (2,1), (1,1), (2,4)}, on the input 'a b / c d / e f' (three lines of two); real processes recording their argv>> label=<<of -L and -n only the one given last limits the batches: an overridden limit has no effect at all, so batches are as large as the limit in force allows (not cut at line ends when -n is in force, not cut after M arguments when -L is)>>
// Exhaustive native enumeration (tools/kani_lane.py, kind=enum): the REAL readers / xargs_main, compiled by plain rustc, are run on
// every input of the stated domain and compared with an executable transcription of the property statement.
#[cfg(verif_replay)]
mod verif_enum_xargs {
    use super::*;
    use std::os::unix::ffi::OsStrExt;
//@SHIM@
    /// a reader that hands out its bytes in the chunks chosen by `cuts` (cuts[i]: a read() ends after byte i)
    struct Chunky { data: Vec<u8>, pos: usize, cuts: Vec<bool> }
    impl Read for Chunky {
        fn read(&mut self, buf: &mut [u8]) -> io::Result<usize> {
            let mut n = 0;
            while self.pos < self.data.len() && n < buf.len() {
                buf[n] = self.data[self.pos];
                n += 1;
                self.pos += 1;
                if self.cuts[self.pos - 1] { break; }
            }
            Ok(n)
        }
    }
    fn stream(alphabet: &[&[u8]], max: usize) -> Vec<u8> {
        let n = pick(max + 1);
        let mut v = Vec::new();
        for _ in 0..n { v.extend_from_slice(alphabet[pick(alphabet.len())]); }
        v
    }
    fn cuts(len: usize) -> Vec<bool> { (0..len).map(|i| i + 1 < len && pick(2) == 1).collect() }

    // ---- the statement's tokenizer (default mode) ----
    #[derive(Debug, PartialEq)]
    enum Want { Arg(Vec<u8>, bool), Unterminated }
    fn ref_tokens(s: &[u8]) -> Vec<Want> {
        let mut out = Vec::new();
        let mut cur: Vec<u8> = Vec::new();
        let mut started = false;
        let mut quote: Option<u8> = None;
        let mut slash = false;
        for &c in s {
            if let Some(q) = quote {
                if c == q { quote = None; } else { cur.push(c); }
            } else if slash { cur.push(c); slash = false; }
            else if c == b'"' || c == b'\'' { quote = Some(c); started = true; }
            else if c == b'\\' { slash = true; started = true; }
            else if c.is_ascii_whitespace() {
                if started { out.push(Want::Arg(std::mem::take(&mut cur), c == b'\n')); started = false; }
            } else { cur.push(c); started = true; }
        }
        if quote.is_some() { out.push(Want::Unterminated); } else if started { out.push(Want::Arg(cur, false)); }
        out
    }
    fn ws_body() {
        let data = stream(&[b"a", b" ", b"\n", b"'", b"\"", b"\\", "\u{e9}".as_bytes(), "\u{e0}".as_bytes(), b"\x0b", b"\xff"], if deep() { 5 } else { 4 });
        let c = cuts(data.len());
        let want = ref_tokens(&data);
        let mut rd = WhitespaceDelimitedArgumentReader::new(Chunky { data: data.clone(), pos: 0, cuts: c.clone() });
        let mut got = Vec::new();
        loop {
            match rd.next() {
                Ok(Some(a)) => got.push(Want::Arg(a.arg.as_bytes().to_vec(), a.kind == ArgumentKind::HardTerminated)),
                Ok(None) => break,
                Err(_) => { got.push(Want::Unterminated); break; }
            }
            if got.len() > 16 { break; }
        }
        if got != want { eprintln!("  input bytes: {:?} = {:?}\n  input read() cuts after bytes: {:?}\n  input arguments read: {:?}\n  input expected:       {:?}", data, String::from_utf8_lossy(&data), c, got, want); }
        assert!(got == want, "arguments differ from the statement's tokenizer");
    }
    #[test] fn e_ws_reader() { kani::explore(ws_body) }

    fn byte_body() {
        let data = stream(&[b"a", b" ", b"\n", b"'", b"\\", b"\0", "\u{e9}".as_bytes(), b"\xff", b"\r"], if deep() { 5 } else { 4 });
        let d = [0u8, b'\n'][pick(2)];
        let c = cuts(data.len());
        let want: Vec<Vec<u8>> = data.split(|&b| b == d).filter(|f| !f.is_empty()).map(|f| f.to_vec()).collect();
        let mut rd = ByteDelimitedArgumentReader::new(Chunky { data: data.clone(), pos: 0, cuts: c.clone() }, d);
        let mut got: Vec<Vec<u8>> = Vec::new();
        let mut kinds_ok = true;
        loop {
            match rd.next() {
                Ok(Some(a)) => { kinds_ok &= a.kind == ArgumentKind::HardTerminated; got.push(a.arg.as_bytes().to_vec()); }
                Ok(None) => break,
                Err(_) => { got.push(b"<error>".to_vec()); break; }
            }
            if got.len() > 16 { break; }
        }
        if got != want { eprintln!("  input bytes: {:?}, delimiter {:?}\n  input read() cuts after bytes: {:?}\n  input fields read: {:?}\n  input expected:    {:?}", data, d, c, got, want); }
        assert!(got == want, "fields differ from the delimiter-separated non-empty fields");
        assert!(kinds_ok, "a field is not marked as terminated");
    }
    #[test] fn e_byte_reader() { kani::explore(byte_body) }

    fn byte_long_body() {
        let n = 1 + pick(3);
        let mut data: Vec<u8> = Vec::new();
        let mut want: Vec<Vec<u8>> = Vec::new();
        for i in 0..n {
            let f: Vec<u8> = match pick(4) { 0 => b"a".to_vec(), 1 => vec![b'x'; 140000], 2 => vec![b'y'; 20000], _ => Vec::new() };
            data.extend_from_slice(&f);
            if i + 1 < n || pick(2) == 1 { data.push(0); }
            if !f.is_empty() { want.push(f); }
        }
        let mut rd = ByteDelimitedArgumentReader::new(std::io::Cursor::new(data), 0);
        let mut got: Vec<Vec<u8>> = Vec::new();
        while let Ok(Some(a)) = rd.next() { got.push(a.arg.as_bytes().to_vec()); if got.len() > 8 { break; } }
        let lens = |v: &Vec<Vec<u8>>| v.iter().map(|f| f.len()).collect::<Vec<_>>();
        if got != want { eprintln!("  input field lengths expected {:?}, read {:?}", lens(&want), lens(&got)); }
        assert!(got == want, "a long field was split, truncated or merged");
    }
    #[test] fn e_byte_reader_long() { kani::explore(byte_long_body) }

    fn system_budget_body() {
        let pieces = ["", "A", "VALUE", "\u{e9}"];
        let n = pick(4);
        let mut env: HashMap<OsString, OsString> = HashMap::new();
        let mut charged = 0usize;
        for i in 0..n {
            let (k, v) = (format!("N{i}{}", pieces[pick(4)]), pieces[pick(4)].to_string());
            charged += k.len() + 1 + v.len() + 1; // NAME=value\0, as execve copies it
            env.insert(k.into(), v.into());
        }
        let arg_max = unsafe { uucore::libc::sysconf(uucore::libc::_SC_ARG_MAX) } as usize;
        let l = MaxCharsCommandSizeLimiter::new_system(&env);
        let want = arg_max.saturating_sub(2048).saturating_sub(charged);
        if l.max_chars != want || l.current_size != 0 { eprintln!("  input environment {:?}: budget {} (used {}), expected ARG_MAX {} - 2048 - {} = {}", env, l.max_chars, l.current_size, arg_max, charged, want); }
        assert!(l.max_chars == want && l.current_size == 0, "system budget does not charge the environment as execve does");
    }
    #[test] fn e_system_budget() { kani::explore(system_budget_body) }

    fn delimiter_body() {
        let syms = ["\\", "0", "1", "4", "7", "8", "x", "a", "n", "t", ",", "\u{e9}"];
        let n = 1 + pick(4);
        let op: String = (0..n).map(|_| syms[pick(syms.len())]).collect();
        let got = parse_delimiter(&op).ok();
        // what the operand may denote
        let b = op.as_bytes();
        let (must, may): (Option<u8>, Option<u8>) = if op == "\\" { (None, Some(b'\\')) } // a lone backslash: an incomplete escape (rejected) or itself
            else if b.len() == 1 { (Some(b[0]), None) }
            else if b[0] != b'\\' { (None, None) }
            else {
                let rest = &op[1..];
                let named = match rest { "a" => Some(7u8), "b" => Some(8), "f" => Some(12), "n" => Some(10), "r" => Some(13), "t" => Some(9), "v" => Some(11), "\\" => Some(b'\\'), _ => None };
                if named.is_some() { (named, None) }
                else if rest == "0" { (None, Some(0)) }   // NUL in C; the repository's own test pins it as rejected (empty octal number)
                else if let Some(h) = rest.strip_prefix('x') { (if !h.is_empty() && h.bytes().all(|c| c.is_ascii_hexdigit()) { u8::from_str_radix(h, 16).ok() } else { None }, None) }
                else if rest.starts_with('0') && rest.len() > 1 { let o = &rest[1..]; (if o.bytes().all(|c| (b'0'..=b'7').contains(&c)) { u8::from_str_radix(o, 8).ok() } else { None }, None) }
                else if !rest.is_empty() && rest.len() <= 3 && rest.bytes().all(|c| (b'0'..=b'7').contains(&c)) { (None, u8::from_str_radix(rest, 8).ok()) }  // \ooo: C also reads this; rejecting it is fine
                else { (None, None) }
            };
        let ok = match (must, may) { (Some(m), _) => got == Some(m), (None, Some(m)) => got.is_none() || got == Some(m), (None, None) => got.is_none() };
        if !ok { eprintln!("  input -d {op:?}: read as {got:?}; must be {must:?}{}", may.map(|m| format!(" (or rejected, or {m})")).unwrap_or_default()); }
        assert!(ok, "delimiter operand");
    }
    #[test] fn e_delimiter() { kani::explore(delimiter_body) }

    // ---- real processes ----
    fn scratch(tag: &str) -> std::path::PathBuf {
        let d = std::env::temp_dir().join(format!("verif-enum-{}-{}", tag, std::process::id()));
        let _ = fs::remove_dir_all(&d);
        fs::create_dir_all(&d).unwrap();
        d
    }
    fn exit_body() {
        let n = pick(if deep() { 5 } else { 4 });
        let outcomes: Vec<usize> = (0..n).map(|_| pick(5)).collect();
        let names = ["0", "3", "125", "255", "K"];
        let d = scratch("exit");
        let input = d.join("in");
        let log = d.join("log");
        fs::write(&input, outcomes.iter().map(|&o| format!("{}\n", names[o])).collect::<String>()).unwrap();
        fs::write(&log, "").unwrap();
        // with no input at all the command still runs once, without argument: that run exits with `empty_status`
        let empty_status = if n == 0 { [0, 3][pick(2)] } else { 0 };
        let script = format!("echo \"$1\" >> '{}'; case \"$1\" in K) kill -9 $$;; \"\") exit {};; *) exit \"$1\";; esac", log.display(), empty_status);
        let rc = xargs_main(&["xargs", "-n1", "-a", input.to_str().unwrap(), "sh", "-c", &script, "sh"]);
        let ran = fs::read_to_string(&log).unwrap().lines().count();
        // the statement
        let (mut want_rc, mut want_ran, mut failed) = (0, 0, false);
        let mut stopped = false;
        for &o in &outcomes {
            want_ran += 1;
            match o { 0 => {}, 1 | 2 => failed = true, 3 => { want_rc = 124; stopped = true; break; }, _ => { want_rc = 125; stopped = true; break; } }
        }
        if !stopped { want_rc = if failed { 123 } else { 0 }; }
        if n == 0 { want_ran = 1; want_rc = if empty_status == 0 { 0 } else { 123 }; } // no input: the command still runs once (no -r)
        let _ = fs::remove_dir_all(&d);
        if (rc, ran) != (want_rc, want_ran) { eprintln!("  input child outcomes: {:?}\n  input xargs exit status {} after {} invocations, expected {} after {}", outcomes.iter().map(|&o| names[o]).collect::<Vec<_>>(), rc, ran, want_rc, want_ran); }
        assert!(rc == want_rc, "exit status is not the documented function of the outcomes");
        assert!(ran == want_ran, "an invocation ran after the one that must stop xargs, or one is missing");
    }
    #[test] fn e_exit_status() { kani::explore(exit_body) }

    fn batching_body() {
        let ntok = pick(if deep() { 5 } else { 3 });
        let mut input = String::new();
        let mut items: Vec<(String, bool)> = Vec::new();
        for i in 0..ntok {
            let tok = if pick(2) == 0 { format!("{}", (b'a' + i as u8) as char) } else { format!("{0}{0}{0}", (b'a' + i as u8) as char) };
            let sep = [" ", "\n", " \n"][pick(3)];
            input.push_str(&tok); input.push_str(sep);
            items.push((tok, sep == "\n"));
        }
        let (n, l): (Option<usize>, Option<usize>) = match pick(5) { 0 => (None, None), 1 => (Some(1), None), 2 => (Some(2), None), 3 => (None, Some(1)), _ => (None, Some(2)) };
        let room = [None, Some(3usize), Some(4), Some(8)][pick(4)];
        let x = pick(2) == 1;
        let r = ntok == 0 && pick(2) == 1;
        let d = scratch("batch");
        let (inp, log) = (d.join("in"), d.join("log"));
        fs::write(&inp, &input).unwrap();
        fs::write(&log, "").unwrap();
        let script = format!("for a; do printf '%s\\0' \"$a\" >> '{l}'; done; printf '\\001' >> '{l}'", l = log.display());
        let cmd: Vec<String> = vec!["sh".into(), "-c".into(), script, "sh".into(), "INIT".into()];
        let base: usize = cmd.iter().map(|c| c.len() + 1).sum();
        let mut args: Vec<String> = vec!["xargs".into(), "-a".into(), inp.to_str().unwrap().into()];
        if let Some(n) = n { args.push("-n".into()); args.push(n.to_string()); }
        if let Some(l) = l { args.push("-L".into()); args.push(l.to_string()); }
        if let Some(rm) = room { args.push("-s".into()); args.push((base + rm).to_string()); }
        if x { args.push("-x".into()); }
        if r { args.push("-r".into()); }
        args.extend(cmd.iter().cloned());
        let argv: Vec<&str> = args.iter().map(|s| s.as_str()).collect();
        let rc = xargs_main(&argv);
        let got_raw = fs::read(&log).unwrap();
        let got: Vec<Vec<String>> = got_raw.split(|&b| b == 1).filter(|r| !r.is_empty())
            .map(|r| r.split(|&b| b == 0).filter(|a| !a.is_empty()).map(|a| String::from_utf8_lossy(a).into_owned()).collect()).collect();
        // ---- the statement ----
        let mut want: Vec<Vec<String>> = Vec::new();
        let mut want_rc = 0;
        let (mut cur, mut chars, mut lines): (Vec<String>, usize, usize) = (Vec::new(), 0, 0);
        for (tok, ends_line) in &items {
            let cost = tok.len() + 1;
            let (fits_n, fits_l, fits_s) = (n.map_or(true, |n| cur.len() < n), l.map_or(true, |l| lines < l), room.map_or(true, |rm| chars + cost <= rm));
            if !(fits_n && fits_l && fits_s) {
                if fits_n && fits_l && x && (n.is_some() || l.is_some()) { want_rc = 1; cur.clear(); break; }
                if !cur.is_empty() { want.push(std::mem::take(&mut cur)); }
                chars = 0; lines = 0;
                if room.map_or(false, |rm| cost > rm) { want_rc = 1; break; }
            }
            cur.push(tok.clone()); chars += cost; if *ends_line { lines += 1; }
        }
        if want_rc == 0 { if !cur.is_empty() { want.push(cur); } else if items.is_empty() && !r { want.push(Vec::new()); } }
        let want_full: Vec<Vec<String>> = want.iter().map(|b| { let mut v = vec!["INIT".to_string()]; v.extend(b.iter().cloned()); v }).collect();
        let _ = fs::remove_dir_all(&d);
        if got != want_full || rc != want_rc {
            eprintln!("  input {:?} with{}{}{}{}{}\n  input invocations {:?} (exit {rc})\n  input expected    {:?} (exit {want_rc})", input,
                      n.map(|n| format!(" -n {n}")).unwrap_or_default(), l.map(|l| format!(" -L {l}")).unwrap_or_default(),
                      room.map(|rm| format!(" -s (command + {rm})")).unwrap_or_default(), if x { " -x" } else { "" }, if r { " -r" } else { "" }, got, want_full);
        }
        assert!(got == want_full, "invocations differ from the statement's batching");
        assert!(rc == want_rc, "exit status");
    }
    #[test] fn e_batching() { kani::explore(batching_body) }

    fn mode_select_body() {
        let rep = [None, Some("-I{}"), Some("-i")][pick(3)];
        let n = [None, Some(1usize), Some(2)][pick(3)];
        let l = [None, Some(1usize)][pick(2)];
        let mut opts: Vec<(char, String)> = Vec::new();
        if let Some(r) = rep { opts.push(('r', r.to_string())); }
        if let Some(n) = n { opts.push(('n', format!("-n{n}"))); }
        if l.is_some() { opts.push(('l', "-L1".to_string())); }
        // every order
        let mut order: Vec<(char, String)> = Vec::new();
        while !opts.is_empty() { let k = pick(opts.len()); order.push(opts.remove(k)); }
        let empty = pick(2) == 1;
        let d = scratch("mode");
        let (inp, log) = (d.join("in"), d.join("log"));
        fs::write(&inp, if empty { "" } else { "a b\nc\n" }).unwrap();
        fs::write(&log, "").unwrap();
        let script = format!("for a; do printf '<%s>' \"$a\" >> '{l}'; done; echo >> '{l}'", l = log.display());
        let mut args: Vec<String> = vec!["xargs".into(), "-a".into(), inp.to_str().unwrap().into()];
        args.extend(order.iter().map(|o| o.1.clone()));
        args.extend(["sh", "-c", &script, "sh", "X{}Y"].iter().map(|s| s.to_string()));
        let argv: Vec<&str> = args.iter().map(|s| s.as_str()).collect();
        let rc = xargs_main(&argv);
        let got = fs::read_to_string(&log).unwrap();
        // the statement
        let last = order.last().map(|o| o.0);
        let mode = if rep.is_some() && l.is_none() && (n.is_none() || n == Some(1)) { 'r' } else { last.unwrap_or('p') };
        let want: String = match (mode, empty) {
            ('r', true) => String::new(),
            ('r', false) => "<Xa bY>\n<XcY>\n".into(),
            (_, true) => "<X{}Y>\n".into(),
            ('n', false) => if n == Some(1) { "<X{}Y><a>\n<X{}Y><b>\n<X{}Y><c>\n".into() } else { "<X{}Y><a><b>\n<X{}Y><c>\n".into() },
            ('l', false) => "<X{}Y><a><b>\n<X{}Y><c>\n".into(),
            (_, false) => "<X{}Y><a><b><c>\n".into(),
        };
        let _ = fs::remove_dir_all(&d);
        if got != want || rc != 0 { eprintln!("  input xargs {:?} on {} input\n  input argv recorded {:?} (exit {rc})\n  input expected      {:?}", order.iter().map(|o| o.1.clone()).collect::<Vec<_>>(), if empty { "empty" } else { "'a b\\nc\\n'" }, got, want); }
        assert!(got == want, "mode selection / empty input");
        assert!(rc == 0, "exit status");
    }
    #[test] fn e_mode_select() { kani::explore(mode_select_body) }

    fn null_items_body() {
        let items: [&[u8]; 7] = [b"a", b" d", b"e ", b"f\ng", b"-h", b"'q'", b"\tt"];
        let (i1, i2) = (items[pick(7)], items[pick(7)]);
        let replace = pick(2) == 1;
        let d = scratch("null");
        let (inp, log) = (d.join("in"), d.join("log"));
        let mut data = i1.to_vec(); data.push(0); data.extend_from_slice(i2); data.push(0);
        fs::write(&inp, &data).unwrap();
        fs::write(&log, "").unwrap();
        let script = format!("for a; do printf '%s\\0' \"$a\" >> '{l}'; done; printf '\\001' >> '{l}'", l = log.display());
        let mut args: Vec<&str> = vec!["xargs", "-0", "-a", inp.to_str().unwrap()];
        if replace { args.extend_from_slice(&["-I", "{}"]); }
        args.extend_from_slice(&["sh", "-c", &script, "sh"]);
        if replace { args.push("{}"); }
        let rc = xargs_main(&args);
        let got = fs::read(&log).unwrap();
        // the statement: every item exactly once, unmodified, in order (one per invocation under -I)
        let mut want: Vec<u8> = Vec::new();
        if replace { for it in [i1, i2] { want.extend_from_slice(it); want.push(0); want.push(1); } }
        else { want.extend_from_slice(i1); want.push(0); want.extend_from_slice(i2); want.push(0); want.push(1); }
        let _ = fs::remove_dir_all(&d);
        if got != want || rc != 0 { eprintln!("  input items {:?} {:?}, xargs -0{}\n  input argv recorded {:?} (exit {rc})\n  input expected      {:?}", String::from_utf8_lossy(i1), String::from_utf8_lossy(i2), if replace { " -I{} CMD {}" } else { " CMD" }, String::from_utf8_lossy(&got), String::from_utf8_lossy(&want)); }
        assert!(got == want, "an item did not reach the command as exactly one unmodified argument");
        assert!(rc == 0, "exit status");
    }
    #[test] fn e_null_items() { kani::explore(null_items_body) }

    fn cannot_run_body() {
        use std::os::unix::fs::PermissionsExt;
        let which = pick(5);
        let d = scratch("run");
        let input = d.join("in");
        fs::write(&input, "x\n").unwrap();
        let cmd = d.join("cmd");
        let want = match which {
            0 => 127, // missing
            1 => { fs::write(&cmd, "#!/bin/sh\nexit 0\n").unwrap(); fs::set_permissions(&cmd, fs::Permissions::from_mode(0o644)).unwrap(); 126 }
            2 => { fs::create_dir(&cmd).unwrap(); 126 }
            3 => { fs::write(&cmd, [0u8, 1, 2, 3]).unwrap(); fs::set_permissions(&cmd, fs::Permissions::from_mode(0o755)).unwrap(); 126 }
            _ => { fs::write(&cmd, "plain file").unwrap(); 126 }
        };
        let path = if which == 4 { cmd.join("below") } else { cmd.clone() };
        let rc = xargs_main(&["xargs", "-a", input.to_str().unwrap(), path.to_str().unwrap()]);
        let _ = fs::remove_dir_all(&d);
        if rc != want { eprintln!("  input command kind {} (0 missing, 1 no x bit, 2 directory, 3 not a program, 4 path through a file): exit status {}, expected {}", which, rc, want); }
        assert!(rc == want, "exit status for a command that cannot be run");
    }
    #[test] fn e_cannot_run() { kani::explore(cannot_run_body) }

    fn replace_body() {
        let r = ["{}", "ab", "RR"][pick(3)]; // none of them occurs in the recording script below
        let first = &r[..1];
        let pieces = [r, first, "x"];
        let np = 1 + pick(3);
        let template: String = (0..np).map(|_| pieces[pick(3)]).collect();
        let lines = ["l".to_string(), "a b".to_string(), format!("p{}q", r), "t ".to_string(), "u\tv\t".to_string()];
        let d = scratch("repl");
        let input = d.join("in");
        let log = d.join("log");
        fs::write(&input, lines.iter().map(|l| format!("{}\n", l)).collect::<String>()).unwrap();
        fs::write(&log, "").unwrap();
        let script = format!("for a in \"$@\"; do printf '<%s>' \"$a\" >> '{}'; done; echo >> '{}'", log.display(), log.display());
        let rc = xargs_main(&["xargs", "-a", input.to_str().unwrap(), "-I", r, "sh", "-c", &script, "sh", &template, "fixed"]);
        let got = fs::read_to_string(&log).unwrap();
        let want: String = lines.iter().map(|l| format!("<{}><fixed>\n", template.replace(r, l))).collect();
        let _ = fs::remove_dir_all(&d);
        if got != want || rc != 0 { eprintln!("  input -I {:?}, initial argument {:?}, lines {:?}\n  input argv recorded: {:?}\n  input expected:      {:?} (exit {})", r, template, lines, got, want, rc); }
        assert!(rc == 0, "exit status");
        assert!(got == want, "argv per invocation differs from whole-line replacement of every occurrence");
    }
    #[test] fn e_replace() { kani::explore(replace_body) }

    fn delimiter_select_body() {
        let opts: [(&str, Option<&str>, u8); 4] = [("-0", None, 0), ("--null", None, 0), ("-d", Some(","), b','), ("--delimiter=;", None, b';')];
        let first = pick(5);          // 4 = only one option
        let second = pick(4);
        // the same option twice (or both spellings of it) is left to the option parser: not part of the statement
        if first != 4 && (first < 2) == (second < 2) { return; }
        let mut args: Vec<String> = vec!["xargs".into()];
        let mut delim = 0u8;
        for k in [first, second] {
            if k == 4 { continue; }
            args.push(opts[k].0.into());
            if let Some(v) = opts[k].1 { args.push(v.into()); }
            delim = opts[k].2;
        }
        let d = scratch("dsel");
        let (inp, log) = (d.join("in"), d.join("log"));
        // a NUL cannot be part of an argument: the input holds one only when NUL is the delimiter in effect
        let data: &[u8] = if delim == 0 { b"a b,c \"d;e\0f\ng" } else { b"a b,c \"d;e'f\ng,;h" };
        fs::write(&inp, data).unwrap();
        fs::write(&log, "").unwrap();
        let script = format!("for a; do printf '<%s>' \"$a\" >> '{l}'; done", l = log.display());
        args.extend(["-a", inp.to_str().unwrap(), "sh", "-c", &script, "sh"].iter().map(|s| s.to_string()));
        let argv: Vec<&str> = args.iter().map(|s| s.as_str()).collect();
        let rc = xargs_main(&argv);
        let got = fs::read(&log).unwrap();
        let _ = fs::remove_dir_all(&d);
        // the statement: split at that one byte only
        let mut want: Vec<u8> = Vec::new();
        for item in data.split(|b| *b == delim) { if item.is_empty() { continue; } want.push(b'<'); want.extend_from_slice(item); want.push(b'>'); }
        if got != want || rc != 0 { eprintln!("  input xargs {:?} on {:?}: exit {rc}, argv recorded {:?}, expected {:?}", &argv[1..argv.len() - 6], String::from_utf8_lossy(data), String::from_utf8_lossy(&got), String::from_utf8_lossy(&want)); }
        assert!(rc == 0 && got == want, "the input is not split at the byte named by the last delimiter option, and only there");
    }
    #[test] fn e_delimiter_select() { kani::explore(delimiter_select_body) }

    fn limit_override_body() {
        let (nl, na) = [(1usize, 3usize), (2, 1), (1, 1), (2, 4)][pick(4)];
        let l_last = pick(2) == 1;
        let d = scratch("lovr");
        let (inp, log) = (d.join("in"), d.join("log"));
        fs::write(&inp, "a b\nc d\ne f\n").unwrap();
        fs::write(&log, "").unwrap();
        let script = format!("for a; do printf '<%s>' \"$a\" >> '{l}'; done; echo >> '{l}'", l = log.display());
        let (lo, no) = (format!("-L{nl}"), format!("-n{na}"));
        let mut args: Vec<&str> = vec!["xargs", "-a", inp.to_str().unwrap()];
        if l_last { args.push(&no); args.push(&lo); } else { args.push(&lo); args.push(&no); }
        args.extend_from_slice(&["sh", "-c", &script, "sh"]);
        let rc = xargs_main(&args);
        let got = fs::read_to_string(&log).unwrap();
        let _ = fs::remove_dir_all(&d);
        let lines_in: [&[&str]; 3] = [&["a", "b"], &["c", "d"], &["e", "f"]];
        let mut want = String::new();
        if l_last {
            for ch in lines_in.chunks(nl) { for l in ch { for a in l.iter() { want.push_str(&format!("<{a}>")); } } want.push('\n'); }
        } else {
            let all: Vec<&str> = lines_in.iter().flat_map(|l| l.iter().copied()).collect();
            for ch in all.chunks(na) { for a in ch { want.push_str(&format!("<{a}>")); } want.push('\n'); }
        }
        if got != want || rc != 0 { eprintln!("  input xargs {} {} on three lines of two arguments: exit {rc}\n  input argv recorded {got:?}\n  input expected      {want:?}", if l_last { &no } else { &lo }, if l_last { &lo } else { &no }); }
        assert!(rc == 0 && got == want, "the limit given last alone decides the batches");
    }
    #[test] fn e_limit_override() { kani::explore(limit_override_body) }
}
