//@ kani xargs
//@ append src/xargs/mod.rs
//@ module verif_kani_xargs
//@ harness k_combine kind=complete props=C19 label=<<CommandResult::combine keeps the first failure: the accumulated result is Failure iff either side is>>
//@ harness k_count_chars kind=bounded props=C04,C06 bound=<<arguments of 0..=4 arbitrary bytes>> label=<<count_osstr_chars_for_exec charges exactly the bytes of the argument plus its terminating NUL>>
//@ harness k_limiter_chain kind=bounded props=C04,C06 bound=<<one try_arg on the chain [-s, -n, -L] in installation order, arbitrary counters and limits below 2^62, argument of 0..=2 bytes of any kind>> label=<<an argument is accepted iff every limiter of the chain has room for it; it comes back unchanged either way; out_of_chars is set exactly when the size limit refuses>>
//@ harness k_limiter_charge kind=bounded props=C04,C06 bound=<<one try_arg on each of the three limiters followed by a limiter that accepts or refuses; arbitrary counter and limit below 2^62; argument of 0..=2 bytes of any kind>> label=<<each limiter asks the rest of the chain first and charges itself only when the whole chain accepted: -s bytes+1, -n one per input item (not for initial arguments), -L one per hard-terminated item>>
#[cfg(any(kani, verif_replay))]
mod verif_kani_xargs {
    use super::*;
    use std::os::unix::ffi::{OsStrExt, OsStringExt};
//@SHIM@
    fn res(b: bool) -> CommandResult { if b { CommandResult::Failure } else { CommandResult::Success } }
    #[cfg_attr(kani, kani::proof)] #[cfg_attr(not(kani), test)]
    fn k_combine() {
        let (a, b): (bool, bool) = (kani::any(), kani::any());
        let mut r = res(a);
        r.combine(res(b));
        assert!(matches!(r, CommandResult::Failure) == (a || b), "combine loses or invents a failure");
    }
    fn bytes(max: usize) -> Vec<u8> {
        let n: usize = kani::any::<u8>() as usize;
        kani::assume(n <= max);
        let mut v = Vec::new();
        let mut i = 0;
        while i < n { v.push(kani::any::<u8>()); i += 1; }
        v
    }
    #[cfg_attr(kani, kani::proof)] #[cfg_attr(kani, kani::unwind(6))] #[cfg_attr(not(kani), test)]
    fn k_count_chars() {
        let v = bytes(4);
        let n = v.len();
        let s = OsString::from_vec(v);
        assert!(count_osstr_chars_for_exec(&s) == n + 1, "cost of an argument is not its byte length + 1");
    }
    #[cfg_attr(kani, kani::proof)] #[cfg_attr(kani, kani::unwind(4))] #[cfg_attr(not(kani), test)]
    fn k_limiter_chain() {
        const B: usize = 1 << 62;
        let (cs, ms, ca, ma, cl, ml): (usize, usize, usize, usize, usize, usize) =
            (kani::any(), kani::any(), kani::any(), kani::any(), kani::any(), kani::any());
        kani::assume(ms < B && ma < B && ml < B);
        kani::assume(cs <= ms && ca <= ma && cl >= 1 && cl <= ml + 1);
        let mut coll = LimiterCollection::new();
        coll.add(MaxCharsCommandSizeLimiter { current_size: cs, max_chars: ms });
        coll.add(MaxArgsCommandSizeLimiter { current_args: ca, max_args: ma });
        coll.add(MaxLinesCommandSizeLimiter { current_line: cl, max_lines: ml });
        let v = bytes(2);
        let cost = v.len() + 1;
        let k: u8 = kani::any(); kani::assume(k < 3);
        let kind = || if k == 0 { ArgumentKind::Initial } else if k == 1 { ArgumentKind::HardTerminated } else { ArgumentKind::SoftTerminated };
        let orig = v.clone();
        let r = coll.try_arg(Argument { arg: OsString::from_vec(v), kind: kind() });
        let fits_s = cs + cost <= ms;
        let fits_n = ca < ma;
        let fits_l = cl <= ml;
        match r {
            Ok(a) => {
                assert!(fits_s && fits_n && fits_l, "accepted although a limiter is exhausted");
                assert!(a.arg.as_bytes() == &orig[..] && a.kind == kind(), "argument changed on its way through the chain");
            }
            Err(e) => {
                assert!(!(fits_s && fits_n && fits_l), "rejected although every limiter has room");
                assert!(e.arg.arg.as_bytes() == &orig[..] && e.arg.kind == kind(), "rejected argument changed");
                assert!(e.out_of_chars == !fits_s, "out_of_chars must name the size limit exactly when it is the first to refuse");
            }
        }
    }
    /// the next limiter in the chain: lets the argument through or refuses it
    struct Gate { ok: bool }
    impl CommandSizeLimiter for Gate {
        fn try_arg(&mut self, arg: Argument, cursor: LimiterCursor<'_>) -> Result<Argument, ExhaustedCommandSpace> {
            if self.ok { cursor.try_next(arg) } else { Err(ExhaustedCommandSpace { arg, out_of_chars: false }) }
        }
        fn dyn_clone(&self) -> Box<dyn CommandSizeLimiter> { Box::new(Gate { ok: self.ok }) }
    }
    #[cfg_attr(kani, kani::proof)] #[cfg_attr(kani, kani::unwind(4))] #[cfg_attr(not(kani), test)]
    fn k_limiter_charge() {
        const B: usize = 1 << 62;
        let which: u8 = kani::any(); kani::assume(which < 3);
        let (cur, max): (usize, usize) = (kani::any(), kani::any());
        kani::assume(max < B && cur <= max + 1);
        let ok: bool = kani::any();
        let mut rest: Vec<Box<dyn CommandSizeLimiter>> = vec![Box::new(Gate { ok })];
        let v = bytes(2);
        let cost = v.len() + 1;
        let k: u8 = kani::any(); kani::assume(k < 3);
        let kind = if k == 0 { ArgumentKind::Initial } else if k == 1 { ArgumentKind::HardTerminated } else { ArgumentKind::SoftTerminated };
        let arg = Argument { arg: OsString::from_vec(v), kind };
        if which == 0 {
            let mut l = MaxCharsCommandSizeLimiter { current_size: cur, max_chars: max };
            let r = l.try_arg(arg, LimiterCursor { limiters: &mut rest[..] });
            let fits = cur + cost <= max;
            assert!(r.is_ok() == (fits && ok), "-s: accepted iff it fits and the rest of the chain accepts");
            assert!(l.current_size == if fits && ok { cur + cost } else { cur }, "-s: charged bytes+1 on acceptance, nothing otherwise");
            assert!(l.max_chars == max, "-s: limit changed");
        } else if which == 1 {
            let mut l = MaxArgsCommandSizeLimiter { current_args: cur, max_args: max };
            let r = l.try_arg(arg, LimiterCursor { limiters: &mut rest[..] });
            let fits = cur < max;
            assert!(r.is_ok() == (fits && ok), "-n: accepted iff below the limit and the rest of the chain accepts");
            assert!(l.current_args == if fits && ok && k != 0 { cur + 1 } else { cur }, "-n: counts input items only, and only accepted ones");
            assert!(l.max_args == max, "-n: limit changed");
        } else {
            kani::assume(cur >= 1);
            let mut l = MaxLinesCommandSizeLimiter { current_line: cur, max_lines: max };
            let r = l.try_arg(arg, LimiterCursor { limiters: &mut rest[..] });
            let fits = cur <= max;
            assert!(r.is_ok() == (fits && ok), "-L: accepted iff the current line is within the limit and the rest of the chain accepts");
            assert!(l.current_line == if fits && ok && k == 1 { cur + 1 } else { cur }, "-L: a line ends at a hard-terminated item, accepted ones only");
            assert!(l.max_lines == max, "-L: limit changed");
        }
    }
}
