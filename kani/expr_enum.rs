//@ kani expr_enum
//@ append src/find/mod.rs
//@ module verif_enum_expr
//@ harness e_expression kind=enum props=C01,C11 thorough_bound=<<every sequence of 0..=6 symbols over the same 12 symbols>> bound=<<every sequence of 0..=5 symbols over {-true, -false, -print, -printf 1, -printf '' (an action that prints nothing), -quit, !, -a, -o, ',', (, )} (12 symbols, 271453 command lines), evaluated on a directory holding one file>> label=<<a symbol sequence that is a sentence of the grammar (parentheses, then !, then -a explicit or by juxtaposition, then -o, then ',') produces exactly the action outputs of the reference evaluation: left to right, -a/-o short-circuit, ',' yields its right side, -print added iff there is no action, nothing evaluated after -quit for this or any later file; every other sequence is rejected with a non-zero status and no output>>
#[cfg(verif_replay)]
mod verif_enum_expr {
    use super::*;
    use crate::find::tests::FakeDependencies;
    use std::path::PathBuf;
//@SHIM@
    #[derive(Clone, Debug)]
    enum Ast { True, False, Print, Printf(&'static str), Quit, Not(Box<Ast>), And(Vec<Ast>), Or(Vec<Ast>), List(Vec<Ast>) }
    const SYMS: [&str; 12] = ["-true", "-false", "-print", "P1", "P0", "-quit", "!", "-a", "-o", ",", "(", ")"];
    // ---- the grammar of the statement ----
    struct P<'a> { t: &'a [&'static str], i: usize }
    impl P<'_> {
        fn peek(&self) -> Option<&'static str> { self.t.get(self.i).copied() }
        fn list(&mut self) -> Option<Ast> {
            let mut v = vec![self.or()?];
            while self.peek() == Some(",") { self.i += 1; v.push(self.or()?); }
            Some(if v.len() == 1 { v.pop().unwrap() } else { Ast::List(v) })
        }
        fn or(&mut self) -> Option<Ast> {
            let mut v = vec![self.and()?];
            while self.peek() == Some("-o") { self.i += 1; v.push(self.and()?); }
            Some(if v.len() == 1 { v.pop().unwrap() } else { Ast::Or(v) })
        }
        fn and(&mut self) -> Option<Ast> {
            let mut v = vec![self.not()?];
            loop {
                match self.peek() {
                    Some("-a") => { self.i += 1; v.push(self.not()?); }
                    Some("-o") | Some(",") | Some(")") | None => break,
                    Some(_) => v.push(self.not()?),
                }
            }
            Some(if v.len() == 1 { v.pop().unwrap() } else { Ast::And(v) })
        }
        fn not(&mut self) -> Option<Ast> {
            if self.peek() == Some("!") { self.i += 1; return Some(Ast::Not(Box::new(self.not()?))); }
            self.primary()
        }
        fn primary(&mut self) -> Option<Ast> {
            let t = self.peek()?;
            self.i += 1;
            Some(match t {
                "-true" => Ast::True, "-false" => Ast::False, "-print" => Ast::Print, "P1" => Ast::Printf("1"), "P0" => Ast::Printf(""), "-quit" => Ast::Quit,
                "(" => { let e = self.list()?; if self.peek() != Some(")") { return None; } self.i += 1; e }
                _ => return None,
            })
        }
    }
    fn parse(t: &[&'static str]) -> Option<Option<Ast>> {
        if t.is_empty() { return Some(None); }
        let mut p = P { t, i: 0 };
        let e = p.list()?;
        if p.i != t.len() { return None; }
        Some(Some(e))
    }
    fn has_action(a: &Ast) -> bool {
        match a { Ast::Print | Ast::Printf(_) => true, Ast::Not(x) => has_action(x), Ast::And(v) | Ast::Or(v) | Ast::List(v) => v.iter().any(has_action), _ => false }
    }
    // ---- the reference evaluation ----
    fn eval(a: &Ast, path: &str, out: &mut String, quit: &mut bool) -> bool {
        match a {
            Ast::True => true, Ast::False => false,
            Ast::Print => { out.push_str(path); out.push('\n'); true }
            Ast::Printf(s) => { out.push_str(s); true }
            Ast::Quit => { *quit = true; true }
            Ast::Not(x) => !eval(x, path, out, quit),
            Ast::And(v) => { for x in v { if !eval(x, path, out, quit) { return false; } if *quit { return true; } } true }
            Ast::Or(v) => { for x in v { if eval(x, path, out, quit) { return true; } if *quit { return false; } } false }
            Ast::List(v) => { let mut r = false; for x in v { r = eval(x, path, out, quit); if *quit { break; } } r }
        }
    }
    fn body() {
        let n = pick(if deep() { 7 } else { 6 });
        let toks: Vec<&'static str> = (0..n).map(|_| SYMS[pick(SYMS.len())]).collect();
        // the tree is read-only for these expressions: made once per process (the lane removes verif-enum-* afterwards)
        let d = std::env::temp_dir().join(format!("verif-enum-expr-{}", std::process::id()));
        static ONCE: std::sync::Once = std::sync::Once::new();
        ONCE.call_once(|| { let _ = std::fs::remove_dir_all(&d); std::fs::create_dir_all(d.join("t")).unwrap(); std::fs::write(d.join("t/f"), "").unwrap(); });
        let t: PathBuf = d.join("t");
        let ts = t.to_str().unwrap().to_string();
        let mut args: Vec<&str> = vec!["find", &ts];
        for k in &toks { if *k == "P1" { args.push("-printf"); args.push("1"); } else if *k == "P0" { args.push("-printf"); args.push(""); } else { args.push(k); } }
        let deps = FakeDependencies::new();
        let rc = find_main(&args, &deps);
        let got = String::from_utf8_lossy(deps.output.borrow().get_ref()).into_owned();
        match parse(&toks) {
            None => {
                if !(rc != 0 && got.is_empty()) { eprintln!("  input find T {:?}: not a sentence of the grammar, yet exit {rc} and output {got:?}", toks); }
                assert!(rc != 0 && got.is_empty(), "a malformed expression must be rejected before anything is printed");
            }
            Some(ast) => {
                let full = match ast { None => Ast::Print, Some(a) => if has_action(&a) { a } else { Ast::And(vec![a, Ast::Print]) } };
                let mut want = String::new();
                let mut quit = false;
                for p in [ts.clone(), format!("{ts}/f")] { if quit { break; } eval(&full, &p, &mut want, &mut quit); }
                if got != want || rc != 0 { eprintln!("  input find T {:?}\n  input output   {:?} (exit {rc})\n  input expected {:?} (exit 0)", toks, got.replace(&ts, "T"), want.replace(&ts, "T")); }
                assert!(rc == 0, "a well-formed expression was rejected");
                assert!(got == want, "action outputs differ from the reference evaluation");
            }
        }
    }
    #[test] fn e_expression() { kani::explore(body) }
}
