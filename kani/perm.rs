//@ kani perm
//@ append src/find/matchers/perm.rs
//@ module verif_kani_perm
//@ harness k_mode_bits_match kind=complete props=C13 covers=entry::ComparisonType::mode_bits_match label=<<ComparisonType::mode_bits_match over every 32-bit st_mode and every 12-bit operand: MODE exact on all twelve bits, -MODE all bits set, /MODE any bit set or MODE == 0>>
#[cfg(any(kani, verif_replay))]
mod verif_kani_perm {
    use super::*;
//@SHIM@
    #[cfg_attr(kani, kani::proof)] #[cfg_attr(not(kani), test)]
    fn k_mode_bits_match() {
        let k: u8 = kani::any(); kani::assume(k < 3);
        let pattern: u32 = kani::any(); kani::assume(pattern <= 0o7777);
        let value: u32 = kani::any();
        let ct = if k == 0 { ComparisonType::Exact } else if k == 1 { ComparisonType::AtLeast } else { ComparisonType::AnyOf };
        let got = ct.mode_bits_match(pattern, value);
        let perm = value & 0o7777; // the twelve permission bits of the status record
        // bit by bit, the statement's definition
        let mut all_set = true;
        let mut any_set = false;
        let mut same = true;
        let mut b = 0;
        while b < 12 {
            let (p, v) = ((pattern >> b) & 1 == 1, (perm >> b) & 1 == 1);
            if p && !v { all_set = false; }
            if p && v { any_set = true; }
            if p != v { same = false; }
            b += 1;
        }
        let want = if k == 0 { same } else if k == 1 { all_set } else { any_set || pattern == 0 };
        assert!(got == want, "-perm comparison on the twelve permission bits");
    }
}
