//@ kani time_enum
//@ append src/find/matchers/time.rs
//@ module verif_enum_time
//@ harness e_newer kind=enum props=C15 bound=<<reference mtime 1000 s + {0, 0.2 s, 0.999999999 s} x entry mtime = reference + {-1 s, -1 ns, 0, +1 ns, +0.3 s, +0.999999999 s, +1 s} on real files (timestamps read back from the file system)>> label=<<-newer F is true iff the entry's modification time is strictly later than F's, at full timestamp resolution>>
//@ harness e_newer_xy kind=enum props=C15 bound=<<X, Y in {a, m} x reference (atime, mtime) and entry (atime, mtime) each from {1000.0, 1000.5, 1001.0, -1.3, -2.0} s relative to the epoch on real files>> label=<<-newerXY F is true iff the entry's X timestamp is strictly later than F's Y timestamp>>
//@ harness e_newer_c kind=enum props=C15 bound=<<an entry's status-change time (as the file system set it) against a reference whose mtime is that time -1 s, -1 ns, exactly, +1 ns, +1 s; -newercm and -cnewer; and the reverse roles with -newermc>> label=<<the c timestamp takes part in -newerXY / -cnewer at full nanosecond resolution, like a and m>>
//@ harness e_clock_fixed kind=enum props=C15 bound=<<two readings of the run's clock 20 ms apart>> label=<<'now' is fixed when find starts: every time test of a run sees the same instant>>
//@ harness e_days kind=enum props=C15,C14 bound=<<timestamp fraction {0, 0.7 s} x age = k days + {-1 s, -1 ns, 0, +1 ns, +0.5 s, +86399 s} for k in 0..=2 (ages >= 0) x operands N, +N, -N for N in 0..=3 x mtime/atime>> label=<<-mtime/-atime N compare N with the number of complete 24-hour periods in now - timestamp, any fraction discarded>>
//@ harness e_minutes kind=enum props=C15,C14 bound=<<timestamp fraction {0, 0.7 s} x age = k minutes + {-1 s, -1 ns, 0, +1 ns, +0.5 s, +59 s} for k in 0..=2 (ages >= 0) x operands N, +N, -N for N in 0..=3>> label=<<-mmin N compares N with the number of complete minutes in now - timestamp>>
#[cfg(verif_replay)]
mod verif_enum_time {
    use super::*;
    use std::fs::{File, FileTimes};
    use std::path::PathBuf;
//@SHIM@
    fn scratch(tag: &str) -> PathBuf {
        let d = std::env::temp_dir().join(format!("verif-enum-time-{}-{}", tag, std::process::id()));
        let _ = fs::remove_dir_all(&d);
        fs::create_dir_all(&d).unwrap();
        d
    }
    fn touch(p: &PathBuf, atime: SystemTime, mtime: SystemTime) {
        let f = File::create(p).unwrap();
        f.set_times(FileTimes::new().set_accessed(atime).set_modified(mtime)).unwrap();
    }
    fn at(secs: u64, nanos: u32) -> SystemTime { UNIX_EPOCH + Duration::new(secs, nanos) }

    fn newer_body() {
        let rn = [0u32, 200_000_000, 999_999_999][pick(3)];
        let r = at(1000, rn);
        let deltas: [(bool, Duration); 7] = [(true, Duration::new(1, 0)), (true, Duration::new(0, 1)), (false, Duration::ZERO), (false, Duration::new(0, 1)),
                                             (false, Duration::new(0, 300_000_000)), (false, Duration::new(0, 999_999_999)), (false, Duration::new(1, 0))];
        let (neg, dl) = deltas[pick(7)];
        let e = if neg { r - dl } else { r + dl };
        let d = scratch("newer");
        let (rf, ef) = (d.join("ref"), d.join("entry"));
        touch(&rf, r, r);
        touch(&ef, e, e);
        // ground truth: the timestamps as the file system stored them
        let (rt, et) = (fs::metadata(&rf).unwrap().modified().unwrap(), fs::metadata(&ef).unwrap().modified().unwrap());
        let want = et > rt;
        let m = NewerMatcher::new(rf.to_str().unwrap(), Follow::Never).unwrap();
        let got = m.matches_impl(&WalkEntry::new(ef.clone(), 0, Follow::Never)).unwrap();
        let _ = fs::remove_dir_all(&d);
        if got != want { eprintln!("  input reference mtime {rt:?}, entry mtime {et:?}: -newer says {got}, expected {want}"); }
        assert!(got == want, "-newer is not 'strictly later at full resolution'");
    }
    #[test] fn e_newer() { kani::explore(newer_body) }

    fn newer_xy_body() {
        // two instants before 1970 as well: 1.3 s and 2 s before the epoch
        let ts = [at(1000, 0), at(1000, 500_000_000), at(1001, 0), UNIX_EPOCH - Duration::new(1, 300_000_000), UNIX_EPOCH - Duration::new(2, 0)];
        let (x, y) = (["a", "m"][pick(2)], ["a", "m"][pick(2)]);
        let (ra, rm, ea, em) = (ts[pick(5)], ts[pick(5)], ts[pick(5)], ts[pick(5)]);
        let d = scratch("xy");
        let (rf, ef) = (d.join("ref"), d.join("entry"));
        touch(&rf, ra, rm);
        touch(&ef, ea, em);
        let (rmeta, emeta) = (fs::metadata(&rf).unwrap(), fs::metadata(&ef).unwrap());
        let yt = if y == "a" { rmeta.accessed().unwrap() } else { rmeta.modified().unwrap() };
        let xt = if x == "a" { emeta.accessed().unwrap() } else { emeta.modified().unwrap() };
        let want = xt > yt;
        let m = NewerOptionMatcher::new(x, y, rf.to_str().unwrap()).unwrap();
        let got = m.matches_impl(&WalkEntry::new(ef.clone(), 0, Follow::Never)).unwrap();
        let _ = fs::remove_dir_all(&d);
        if got != want { eprintln!("  input -newer{x}{y}: entry {x}time {xt:?}, reference {y}time {yt:?}: got {got}, expected {want}"); }
        assert!(got == want, "-newerXY does not compare the entry's X timestamp with the reference's Y timestamp");
    }
    #[test] fn e_newer_xy() { kani::explore(newer_xy_body) }

    fn newer_c_body() {
        let d = scratch("newerc");
        let (rf, ef) = (d.join("ref"), d.join("entry"));
        File::create(&ef).unwrap();
        let em = fs::metadata(&ef).unwrap();
        let ct = if em.ctime() >= 0 { UNIX_EPOCH + Duration::new(em.ctime() as u64, em.ctime_nsec() as u32) } else { UNIX_EPOCH };
        let deltas: [(bool, Duration); 5] = [(true, Duration::new(1, 0)), (true, Duration::new(0, 1)), (false, Duration::ZERO), (false, Duration::new(0, 1)), (false, Duration::new(1, 0))];
        let (neg, dl) = deltas[pick(5)];
        let rt = if neg { ct - dl } else { ct + dl };
        touch(&rf, rt, rt);
        let rmt = fs::metadata(&rf).unwrap().modified().unwrap();
        let form = pick(3);
        let (got, want, what) = match form {
            0 => (NewerOptionMatcher::new("c", "m", rf.to_str().unwrap()).unwrap().matches_impl(&WalkEntry::new(ef.clone(), 0, Follow::Never)).unwrap(), ct > rmt, "-newercm ref on entry"),
            1 => { // -cnewer = -newercm through the command line
                let mut config = crate::find::Config::default();
                let m = crate::find::matchers::build_top_level_matcher(&["-cnewer", rf.to_str().unwrap(), "-a", "-true"], &mut config).unwrap();
                let deps = crate::find::tests::FakeDependencies::new();
                (m.matches(&WalkEntry::new(ef.clone(), 0, Follow::Never), &mut deps.new_matcher_io()), ct > rmt, "-cnewer ref on entry") }
            _ => { // reverse roles: the reference's ctime against the entry's mtime: here "entry" is the reference
                let rc = { let m = fs::metadata(&rf).unwrap(); UNIX_EPOCH + Duration::new(m.ctime() as u64, m.ctime_nsec() as u32) };
                let emt = em.modified().unwrap();
                (NewerOptionMatcher::new("m", "c", rf.to_str().unwrap()).unwrap().matches_impl(&WalkEntry::new(ef.clone(), 0, Follow::Never)).unwrap(), emt > rc, "-newermc ref on entry") }
        };
        let _ = fs::remove_dir_all(&d);
        if got != want { eprintln!("  input {what}: entry ctime {ct:?}, reference mtime {rmt:?}: got {got}, expected {want}"); }
        assert!(got == want, "the c timestamp is not compared at full resolution");
    }
    #[test] fn e_newer_c() { kani::explore(newer_c_body) }

    fn clock_fixed_body() {
        use crate::find::Dependencies;
        let deps = crate::find::StandardDependencies::new();
        let t1 = deps.now();
        std::thread::sleep(Duration::from_millis(20));
        let t2 = deps.now();
        if t1 != t2 { eprintln!("  input two readings of the run's clock 20 ms apart differ: {t1:?} then {t2:?}"); }
        assert!(t1 == t2, "the clock of a run moves while it runs");
    }
    #[test] fn e_clock_fixed() { kani::explore(clock_fixed_body) }

    fn periods(unit: u64, days: bool) {
        let frac = [0u32, 700_000_000][pick(2)];
        let ts = at(1_000_000, frac);
        let k = pick(3) as u64;
        let offs: [(bool, Duration); 6] = [(true, Duration::new(1, 0)), (true, Duration::new(0, 1)), (false, Duration::ZERO), (false, Duration::new(0, 1)),
                                           (false, Duration::new(0, 500_000_000)), (false, Duration::new(unit - 1, 0))];
        let (neg, off) = offs[pick(6)];
        let base = Duration::new(k * unit, 0);
        if neg && base < off { return; } // ages >= 0 only
        let age = if neg { base - off } else { base + off };
        let n = pick(4) as u64;
        let form = pick(3);
        let cv = || match form { 0 => ComparableValue::EqualTo(n), 1 => ComparableValue::MoreThan(n), _ => ComparableValue::LessThan(n) };
        let use_atime = days && pick(2) == 1;
        let d = scratch(if days { "days" } else { "min" });
        let ef = d.join("entry");
        // the other timestamp is far away, so that reading the wrong one shows
        if use_atime { touch(&ef, ts, at(5, 0)); } else { touch(&ef, at(5, 0), ts); }
        let meta = fs::metadata(&ef).unwrap();
        let stored = if use_atime { meta.accessed().unwrap() } else { meta.modified().unwrap() };
        let now = stored + age;
        let whole = age.as_nanos() / (unit as u128 * 1_000_000_000);
        let want = match form { 0 => whole == n as u128, 1 => whole > n as u128, _ => whole < n as u128 };
        let entry = WalkEntry::new(ef.clone(), 0, Follow::Never);
        let got = if days {
            FileTimeMatcher::new(if use_atime { FileTimeType::Accessed } else { FileTimeType::Modified }, cv(), false).matches_impl(&entry, now).unwrap()
        } else {
            FileAgeRangeMatcher::new(FileTimeType::Modified, cv(), false).matches_impl(&entry, now).unwrap()
        };
        let _ = fs::remove_dir_all(&d);
        if got != want { eprintln!("  input timestamp {stored:?}, now - timestamp = {age:?} = {whole} complete periods of {unit} s; operand {} {n}: got {got}, expected {want}", ["N", "+N", "-N"][form]); }
        assert!(got == want, "complete periods elapsed");
    }
    fn days_body() { periods(86400, true) }
    fn minutes_body() { periods(60, false) }
    #[test] fn e_days() { kani::explore(days_body) }
    #[test] fn e_minutes() { kani::explore(minutes_body) }
}
