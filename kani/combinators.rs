//@ kani combinators
//@ append src/find/matchers/logical_matchers.rs
//@ module verif_kani
//@ harness k_and_matcher kind=bounded props=C01,C10 bound=<<exactly 3 operands, each with symbolic result and symbolic quit behaviour (all 64 combinations)>> label=<<AndMatcher::matches == left-to-right -a evaluation with short circuit and quit cut-off (value, quit flag, exact call sequence)>>
//@ harness k_or_matcher kind=bounded props=C01,C10 bound=<<exactly 3 operands, each with symbolic result and symbolic quit behaviour (all 64 combinations)>> label=<<OrMatcher::matches == left-to-right -o evaluation with short circuit and quit cut-off>>
//@ harness k_list_matcher kind=bounded props=C01,C10 bound=<<exactly 3 operands, each with symbolic result and symbolic quit behaviour (all 64 combinations)>> label=<<ListMatcher::matches == comma evaluation: every operand in order until quit, value of the last one evaluated>>
//@ harness k_not_matcher kind=complete props=C01 label=<<NotMatcher::matches negates its operand, evaluates it exactly once, passes quit through>>
// Bounded stand-in for the combinator loops (the unbounded statement is the Verus unit `logic`): the REAL
// AndMatcher/OrMatcher/ListMatcher/NotMatcher are run on stub operands and compared with the statement's evaluation rule.
#[cfg(any(kani, verif_replay))]
mod verif_kani {
    use super::*;
    use crate::find::matchers::{Follow, Matcher, MatcherIO, WalkEntry};
    use crate::find::Dependencies;
    use std::cell::{Cell, RefCell};
    use std::io::Write;
    use std::rc::Rc;
    use std::time::SystemTime;
//@SHIM@
    struct Deps { out: RefCell<Vec<u8>> }
    impl Dependencies for Deps {
        fn get_output(&self) -> &RefCell<dyn Write> { &self.out }
        fn now(&self) -> SystemTime { SystemTime::UNIX_EPOCH }
    }
    /// a primary with an arbitrary but fixed behaviour; the call log is a base-4 number
    struct Stub { res: bool, quits: bool, id: u32, log: Rc<Cell<u32>> }
    impl Matcher for Stub {
        fn matches(&self, _: &WalkEntry, io: &mut MatcherIO) -> bool {
            self.log.set(self.log.get() * 4 + self.id);
            if self.quits { io.quit(); }
            self.res
        }
    }
    /// the statement's evaluation rule on three operands: (value, quit flag, call log)
    fn ref_eval(kind: u8, t: [(bool, bool); 3]) -> (bool, bool, u32) {
        let mut rc = kind == 0;
        let mut log = 0u32;
        let mut quit = false;
        let mut i = 0;
        while i < 3 {
            let (res, q) = t[i];
            log = log * 4 + (i as u32 + 1);
            if q { quit = true; }
            if kind == 0 { if !res { return (false, quit, log); } }
            else if kind == 1 { if res { return (true, quit, log); } }
            else { rc = res; }
            if quit { break; }
            i += 1;
        }
        if kind == 1 { rc = false; }
        (rc, quit, log)
    }
    fn check(kind: u8) {
        let log = Rc::new(Cell::new(0u32));
        let t: [(bool, bool); 3] = [(kani::any(), kani::any()), (kani::any(), kani::any()), (kani::any(), kani::any())];
        let subs: Vec<Box<dyn Matcher>> = vec![
            Box::new(Stub { res: t[0].0, quits: t[0].1, id: 1, log: log.clone() }),
            Box::new(Stub { res: t[1].0, quits: t[1].1, id: 2, log: log.clone() }),
            Box::new(Stub { res: t[2].0, quits: t[2].1, id: 3, log: log.clone() }),
        ];
        let deps = Deps { out: RefCell::new(Vec::new()) };
        let mut io = MatcherIO::new(&deps);
        let entry = WalkEntry::new("x", 0, Follow::Never);
        let got = if kind == 0 { AndMatcher::new(subs).matches(&entry, &mut io) }
                  else if kind == 1 { OrMatcher::new(subs).matches(&entry, &mut io) }
                  else { ListMatcher::new(subs).matches(&entry, &mut io) };
        let (want, wquit, wlog) = ref_eval(kind, t);
        // -a/-o with a quit in the middle: the value the statement fixes is the one of the operands evaluated so far
        assert!(got == want, "combinator value differs from the evaluation rule");
        assert!(io.should_quit() == wquit, "quit flag differs");
        assert!(log.get() == wlog, "operands evaluated differ (order, short circuit or quit cut-off)");
    }
    #[cfg_attr(kani, kani::proof)] #[cfg_attr(kani, kani::unwind(5))] #[cfg_attr(not(kani), test)]
    fn k_and_matcher() { check(0) }
    #[cfg_attr(kani, kani::proof)] #[cfg_attr(kani, kani::unwind(5))] #[cfg_attr(not(kani), test)]
    fn k_or_matcher() { check(1) }
    #[cfg_attr(kani, kani::proof)] #[cfg_attr(kani, kani::unwind(5))] #[cfg_attr(not(kani), test)]
    fn k_list_matcher() { check(2) }
    #[cfg_attr(kani, kani::proof)] #[cfg_attr(not(kani), test)]
    fn k_not_matcher() {
        let log = Rc::new(Cell::new(0u32));
        let (res, q): (bool, bool) = (kani::any(), kani::any());
        let m = NotMatcher::new(Stub { res, quits: q, id: 1, log: log.clone() });
        let deps = Deps { out: RefCell::new(Vec::new()) };
        let mut io = MatcherIO::new(&deps);
        let entry = WalkEntry::new("x", 0, Follow::Never);
        let got = m.matches(&entry, &mut io);
        assert!(got == !res, "! does not negate");
        assert!(io.should_quit() == q, "quit flag differs");
        assert!(log.get() == 1, "operand not evaluated exactly once");
    }
}
