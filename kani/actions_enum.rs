//@ kani actions_enum
//@ append src/find/mod.rs
//@ module verif_enum_actions
//@ harness e_exec_single kind=enum props=C09 thorough_bound=<<every set of three of the eight names x the same templates, statuses and modes>> bound=<<a directory with three files (three fixed sets covering all eight names) whose names are drawn from {plain, 'a b', it's, new-line, {}, -dash, star*, the non-UTF-8 byte 0xff} x argument templates {}, a{}b, {}{}, x, a literal + and pairs of them x CMD exit status 0 or 3, or a CMD that does not exist x the directory or the three files themselves as starting points x -exec / -execdir, real processes recording their argv and working directory>> label=<<-exec CMD ARGS ; runs CMD once per file in visit order with every {} in every argument replaced by the path (./basename and the parent as working directory for -execdir), every argument one argv element byte for byte; the action is true iff CMD exits 0; find's exit status stays 0>>
//@ harness e_exec_plus kind=enum props=C08 thorough_bound=<<every set of three of the eight names x -quit position x -exec / -execdir>> bound=<<the same directory of three files (three fixed sets) x an optional -quit after the first, second or third file x -exec / -execdir, real processes>> label=<<-exec CMD {} + passes every path on which the action is reached exactly once, after the fixed arguments, in visit order, also when -quit ends the walk; -execdir batches contain ./basename entries of one directory and run there; the action is always true>>
//@ harness e_exec_dirs kind=enum props=C08 bound=<<a tree r/{A/{a1,a2},B/{b1},C/{c1,c2}}; -execdir CMD {} + with -mindepth absent, 1 or 2, plain or under !, ( ), -o, ',' or ! ( -a ) -o, and -exec CMD {} + over every non-empty ordered selection of up to three of the starting points r/A, r/B, r/C, with or without -quit on the first file; real processes>> label=<<each -execdir invocation runs in one directory and contains only ./basename entries of that directory; over all invocations every reached file is delivered exactly once, also across several starting points>>
//@ harness e_quit_status kind=enum props=C01,C18 bound=<<one or two starting points x an action before -quit that succeeds (-print0) or fails (-fprint /dev/full) on the first entry>> label=<<once -quit is evaluated nothing further is evaluated for that entry or any later entry or starting point, whether or not an earlier action on the same entry failed; the exit status still reports the failure>>
//@ harness e_delete_vanished kind=enum props=C10 bound=<<a file removed by an earlier -exec rm on the same entry, or deleted twice by ( -delete , -delete ); a non-empty directory as control>> label=<<an entry that cannot be removed (it is already gone, or it is a non-empty directory) makes -delete false for that entry and find's exit status non-zero>>
//@ harness e_delete kind=enum props=C10 bound=<<a tree with two files, a nested directory with a file, a link to a file, a link to a directory and a link pointing outside, targets outside the tree and a file whose name is not valid UTF-8 x tests {-true, -name 'f*', -type f, -type l, -type d, -name sub, ! -name keep, -type f -empty} x -P / -H>> label=<<find T EXPR -delete removes exactly the entries that -depth EXPR -print reports on an identical tree (a non-empty directory stays and makes the exit status non-zero), never a link's target, and nothing outside>>
//@ harness e_exec_spellings kind=enum props=C09 bound=<<a tree T/{f, sub/g} x starting point spelled T, T/, T//, T/./sub, T/sub/../sub x an extra command argument from {none, --version, -version, --help, -help, -print, ), -o, {}+} x template {} or x{}y x -exec / -execdir; real processes recording argv and working directory>> label=<<the path substituted for {} is the entry's path exactly as -print0 prints it for that spelling of the starting point (./basename and the parent directory for -execdir), and every word between CMD and ; - whatever it looks like, find's own options and operators included - reaches CMD as one argv element>>
#[cfg(verif_replay)]
mod verif_enum_actions {
    use super::*;
    use crate::find::tests::FakeDependencies;
    use std::ffi::{OsStr, OsString};
    use std::os::unix::ffi::{OsStrExt, OsStringExt};
    use std::os::unix::fs::symlink;
    use std::path::{Path, PathBuf};
//@SHIM@
    fn scratch(tag: &str) -> PathBuf {
        let d = std::env::temp_dir().join(format!("verif-enum-act-{}-{}", tag, std::process::id()));
        let _ = std::fs::remove_dir_all(&d);
        std::fs::create_dir_all(&d).unwrap();
        d
    }
    fn run(args: &[&str]) -> (i32, Vec<u8>) {
        let deps = FakeDependencies::new();
        let rc = find_main(args, &deps);
        let out = deps.output.borrow().get_ref().clone();
        (rc, out)
    }
    const NAMES: [&[u8]; 8] = [b"plain", b"a b", b"it's", b"new\nline", b"{}", b"-dash", b"star*", b"\xff"];
    fn three_files(t: &Path) -> Vec<Vec<u8>> {
        let mut chosen: Vec<&[u8]> = Vec::new();
        if deep() {
            // thorough: every set of three distinct names (56 sets)
            let (i, j, k) = (pick(8), pick(8), pick(8));
            if !(i < j && j < k) { kani::assume(false); }
            chosen = vec![NAMES[i], NAMES[j], NAMES[k]];
        } else {
            let k = pick(3);
            chosen = [[NAMES[0], NAMES[1], NAMES[2]], [NAMES[3], NAMES[4], NAMES[5]], [NAMES[6], NAMES[7], NAMES[0]]][k].to_vec();
        }
        for c in &chosen { std::fs::write(t.join(OsStr::from_bytes(c)), "").unwrap(); }
        let mut v: Vec<Vec<u8>> = chosen.iter().map(|c| c.to_vec()).collect();
        v.sort();
        v
    }
    fn join(t: &Path, name: &[u8]) -> Vec<u8> { let mut p = t.as_os_str().as_bytes().to_vec(); p.push(b'/'); p.extend_from_slice(name); p }
    fn subst(template: &str, with: &[u8]) -> Vec<u8> {
        let mut out = Vec::new();
        let tb = template.as_bytes();
        let mut i = 0;
        while i < tb.len() { if tb[i..].starts_with(b"{}") { out.extend_from_slice(with); i += 2; } else { out.push(tb[i]); i += 1; } }
        out
    }

    fn exec_single_body() {
        let d = scratch("exec1");
        let t = d.join("t");
        std::fs::create_dir(&t).unwrap();
        let names = three_files(&t);
        let templates = ["{}", "a{}b", "{}{}", "x", "+"];
        let nt = 1 + pick(2);
        let tpl: Vec<&str> = (0..nt).map(|_| templates[pick(5)]).collect();
        // "{} +" is the other form of the action; a "+" anywhere else is ordinary text
        if tpl.len() == 2 && tpl[0] == "{}" && tpl[1] == "+" { let _ = std::fs::remove_dir_all(&d); kani::assume(false); }
        let file_roots = pick(2) == 1; // the files themselves are the starting points: depth-0 entries whose path has a directory part
        let status = [0, 3, -1][pick(3)]; // -1: CMD does not exist
        let dir_mode = pick(2) == 1;
        let log = d.join("log");
        let missing = d.join("no-such-command");
        // records: working directory, then every argument in <...>, NUL-terminated record (no braces in the script: {} would be substituted)
        let script = format!("pwd >> '{l}'; for a; do printf '<%s>' \"$a\" >> '{l}'; done; printf '\\0' >> '{l}'; exit {status}", l = log.display());
        let ts = t.to_str().unwrap();
        let root_paths: Vec<String> = names.iter().map(|n| String::from_utf8_lossy(&join(&t, n)).into_owned()).collect();
        if file_roots && names.iter().any(|n| std::str::from_utf8(n).is_err()) { let _ = std::fs::remove_dir_all(&d); kani::assume(false); } // argv is text
        let mut args: Vec<&str> = vec!["find"];
        if file_roots { for r in &root_paths { args.push(r); } } else { args.push(ts); }
        args.extend_from_slice(&["-sorted", "-type", "f", if dir_mode { "-execdir" } else { "-exec" }]);
        if status < 0 { args.push(missing.to_str().unwrap()); } else { args.extend_from_slice(&["sh", "-c", &script, "sh"]); }
        args.extend_from_slice(&tpl);
        args.extend_from_slice(&[";", "-print0"]);
        let (rc, out) = run(&args);
        let got = std::fs::read(&log).unwrap_or_default();
        let mut want: Vec<u8> = Vec::new();
        let mut want_out: Vec<u8> = Vec::new();
        let cwd: Vec<u8> = std::env::current_dir().unwrap().as_os_str().as_bytes().to_vec();
        for n in &names {
            if status < 0 { break; } // nothing runs, the action is false for every file, find's own status stays 0
            let path = if dir_mode { let mut p = b"./".to_vec(); p.extend_from_slice(n); p } else { join(&t, n) };
            want.extend_from_slice(if dir_mode { ts.as_bytes() } else { &cwd });
            want.push(b'\n');
            for tp in &tpl { want.push(b'<'); want.extend_from_slice(&subst(tp, &path)); want.push(b'>'); }
            want.push(0);
            if status == 0 { want_out.extend_from_slice(String::from_utf8_lossy(&join(&t, n)).as_bytes()); want_out.push(0); }
        }
        let _ = std::fs::remove_dir_all(&d);
        if got != want || out != want_out || rc != 0 {
            eprintln!("  input files {:?}, arguments {:?}, CMD exit {status}, {}\n  input argv records {:?}\n  input expected     {:?}\n  input -print0 after the action {:?}, expected {:?}; find exit {rc}",
                      names.iter().map(|n| String::from_utf8_lossy(n).into_owned()).collect::<Vec<_>>(), tpl, if dir_mode { "-execdir" } else { "-exec" },
                      String::from_utf8_lossy(&got), String::from_utf8_lossy(&want), String::from_utf8_lossy(&out), String::from_utf8_lossy(&want_out));
        }
        assert!(got == want, "argv / working directory per invocation");
        assert!(out == want_out, "the action is true exactly when CMD exits 0");
        assert!(rc == 0, "a failing CMD must not change find's exit status");
    }
    #[test] fn e_exec_single() { kani::explore(exec_single_body) }

    fn exec_plus_body() {
        let d = scratch("execp");
        let t = d.join("t");
        std::fs::create_dir(&t).unwrap();
        let names = three_files(&t);
        let quit_after = pick(4); // 0: no -quit; k: -quit when the k-th file (in order) is reached
        let dir_mode = pick(2) == 1;
        let log = d.join("log");
        let script = format!("pwd >> '{l}'; for a; do printf '<%s>' \"$a\" >> '{l}'; done; printf '\\0' >> '{l}'", l = log.display());
        let ts = t.to_str().unwrap();
        let mut args: Vec<&str> = vec!["find", ts, "-sorted", "-type", "f", if dir_mode { "-execdir" } else { "-exec" }, "sh", "-c", &script, "sh", "fixed", "{}", "+"];
        let qname;
        if quit_after > 0 {
            // -quit is reached on the file that sorts at position quit_after; names that are not valid UTF-8 cannot be named on the command line
            match std::str::from_utf8(&names[quit_after - 1]) { Ok(s) => { qname = s.replace('*', "\\*"); args.extend_from_slice(&["-name", &qname, "-quit"]); } Err(_) => { let _ = std::fs::remove_dir_all(&d); kani::assume(false); } }
        }
        let (rc, _out) = run(&args);
        let got = std::fs::read(&log).unwrap_or_default();
        let reached: Vec<&Vec<u8>> = if quit_after > 0 { names.iter().take(quit_after).collect() } else { names.iter().collect() };
        // all records concatenated: the fixed argument first in each, every reached path exactly once, in order
        let recs: Vec<&[u8]> = got.split(|&b| b == 0).filter(|r| !r.is_empty()).collect();
        let mut delivered: Vec<u8> = Vec::new();
        let mut shape_ok = true;
        for r in &recs {
            let nl = r.iter().position(|&b| b == b'\n').unwrap_or(0);
            let (cwd, rest) = (&r[..nl], &r[nl + 1..]);
            if dir_mode && cwd != ts.as_bytes() { shape_ok = false; }
            if !rest.starts_with(b"<fixed>") { shape_ok = false; }
            delivered.extend_from_slice(&rest[b"<fixed>".len().min(rest.len())..]);
        }
        let mut want: Vec<u8> = Vec::new();
        for n in &reached { want.push(b'<'); if dir_mode { want.extend_from_slice(b"./"); want.extend_from_slice(n); } else { want.extend_from_slice(&join(&t, n)); } want.push(b'>'); }
        let _ = std::fs::remove_dir_all(&d);
        if delivered != want || !shape_ok || rc != 0 {
            eprintln!("  input files {:?}, -quit at file #{quit_after}, {}\n  input invocations {:?}\n  input expected paths delivered {:?}; exit {rc}",
                      names.iter().map(|n| String::from_utf8_lossy(n).into_owned()).collect::<Vec<_>>(), if dir_mode { "-execdir" } else { "-exec" },
                      String::from_utf8_lossy(&got), String::from_utf8_lossy(&want));
        }
        assert!(shape_ok, "every invocation starts with the fixed arguments (and, for -execdir, runs in the directory)");
        assert!(delivered == want, "every reached path is delivered exactly once, in visit order, also after -quit");
        assert!(rc == 0, "exit status when every invocation succeeds");
    }
    #[test] fn e_exec_plus() { kani::explore(exec_plus_body) }

    fn exec_dirs_body() {
        let d = scratch("execd");
        let r = d.join("r");
        let files = [("A", "a1"), ("A", "a2"), ("B", "b1"), ("C", "c1"), ("C", "c2")];
        for (dir, f) in files { std::fs::create_dir_all(r.join(dir)).unwrap(); std::fs::write(r.join(dir).join(f), "").unwrap(); }
        let log = d.join("log");
        let script = format!("pwd >> '{l}'; for a; do printf '<%s>' \"$a\" >> '{l}'; done; printf '\\0' >> '{l}'", l = log.display());
        let dir_mode = pick(2) == 1;
        let rs = r.to_str().unwrap().to_string();
        let roots_all = [format!("{rs}/A"), format!("{rs}/B"), format!("{rs}/C")];
        let mut args: Vec<String> = vec!["find".into()];
        let mut want: Vec<(String, String)> = Vec::new(); // (directory, name) of every file the action is reached on
        if dir_mode {
            let mind = pick(3); // 0: none
            args.push(rs.clone());
            args.push("-sorted".into());
            if mind > 0 { args.push("-mindepth".into()); args.push(mind.to_string()); }
            // the action under each combinator: where it sits in the expression tree must not change what is delivered
            let wrap = pick(6);
            let act: Vec<&str> = vec!["-execdir", "sh", "-c", &script, "sh", "{}", "+"];
            let mut e: Vec<&str> = vec!["-type", "f"];
            match wrap {
                0 => e.extend_from_slice(&act),
                1 => { e.push("!"); e.extend_from_slice(&act); }
                2 => { e.push("("); e.extend_from_slice(&act); e.push(")"); }
                3 => { e.push("("); e.push("-false"); e.push("-o"); e.extend_from_slice(&act); e.push(")"); }
                4 => { e.push("("); e.extend_from_slice(&act); e.push(","); e.push("-true"); e.push(")"); }
                _ => { e.push("("); e.push("!"); e.push("("); e.push("-true"); e.extend_from_slice(&act); e.push(")"); e.push("-o"); e.push("-true"); e.push(")"); }
            }
            args.extend(e.iter().map(|s| s.to_string()));
            for (dir, f) in files { want.push((format!("{rs}/{dir}"), f.to_string())); }
        } else {
            let n = 1 + pick(3);
            let quit_first = pick(2) == 1; // -quit on the first file of the first starting point: the pending batch still runs
            let mut sel: Vec<usize> = Vec::new();
            for _ in 0..n { let k = pick(3); if sel.contains(&k) { let _ = std::fs::remove_dir_all(&d); kani::assume(false); } sel.push(k); }
            for &k in &sel { args.push(roots_all[k].clone()); }
            args.extend(["-sorted", "-type", "f", "-exec", "sh", "-c", &script, "sh", "{}", "+"].iter().map(|s| s.to_string()));
            for &k in &sel { for (dir, f) in files { if dir == ["A", "B", "C"][k] { want.push((format!("{rs}/{dir}"), f.to_string())); } } }
            if quit_first { let first = want[0].1.clone(); args.extend(["-name".to_string(), first, "-quit".to_string()]); want.truncate(1); }
        }
        let argv: Vec<&str> = args.iter().map(|s| s.as_str()).collect();
        let (rc, _out) = run(&argv);
        let got_raw = std::fs::read(&log).unwrap_or_default();
        let mut got: Vec<(String, String)> = Vec::new();
        let mut one_dir = true;
        for rec in got_raw.split(|&b| b == 0).filter(|r| !r.is_empty()) {
            let text = String::from_utf8_lossy(rec).into_owned();
            let (cwd, rest) = text.split_once('\n').unwrap_or(("", ""));
            for a in rest.split('>').filter(|a| !a.is_empty()) {
                let a = a.trim_start_matches('<');
                if dir_mode {
                    let name = a.strip_prefix("./").unwrap_or("?");
                    if !Path::new(cwd).join(name).exists() { one_dir = false; }
                    got.push((cwd.to_string(), name.to_string()));
                } else {
                    let p = Path::new(a);
                    got.push((p.parent().unwrap().to_string_lossy().into_owned(), p.file_name().unwrap().to_string_lossy().into_owned()));
                }
            }
        }
        let _ = std::fs::remove_dir_all(&d);
        if got != want || !one_dir || rc != 0 { eprintln!("  input find {:?}\n  input delivered (directory, name) {:?} (exit {rc})\n  input expected {:?}", argv[1..].iter().map(|a| a.replace(&rs, "r")).filter(|a| !a.contains("printf")).collect::<Vec<_>>(), got.iter().map(|(a, b)| (a.replace(&rs, "r"), b.clone())).collect::<Vec<_>>(), want.iter().map(|(a, b)| (a.replace(&rs, "r"), b.clone())).collect::<Vec<_>>()); }
        assert!(one_dir, "an -execdir invocation names an entry that is not in its working directory");
        assert!(got == want, "every reached file must be delivered exactly once, in visit order");
        assert!(rc == 0, "exit status when every invocation succeeds");
    }
    #[test] fn e_exec_dirs() { kani::explore(exec_dirs_body) }

    fn quit_status_body() {
        if !Path::new("/dev/full").exists() { return; }
        let d = scratch("quit");
        for n in ["a", "b"] { std::fs::create_dir_all(d.join(n)).unwrap(); std::fs::write(d.join(n).join("f"), "").unwrap(); }
        let two = pick(2) == 1;
        let failing = pick(2) == 1;
        let (ra, rb) = (d.join("a"), d.join("b"));
        let mut args: Vec<&str> = vec!["find", ra.to_str().unwrap()];
        if two { args.push(rb.to_str().unwrap()); }
        args.push("-print0");
        if failing { args.extend_from_slice(&["-fprint", "/dev/full"]); }
        args.push("-quit");
        let (rc, out) = run(&args);
        let mut want = ra.as_os_str().as_bytes().to_vec();
        want.push(0);
        let _ = std::fs::remove_dir_all(&d);
        if out != want || (rc != 0) != failing { eprintln!("  input find a{} -print0{} -quit\n  input printed {:?} (exit {rc}); expected only the first starting point (exit {})", if two { " b" } else { "" }, if failing { " -fprint /dev/full" } else { "" }, String::from_utf8_lossy(&out), if failing { "non-zero" } else { "0" }); }
        assert!(out == want, "something was evaluated after -quit");
        assert!((rc != 0) == failing, "exit status");
    }
    #[test] fn e_quit_status() { kani::explore(quit_status_body) }

    fn delete_vanished_body() {
        let d = scratch("delv");
        let t = d.join("t");
        std::fs::create_dir_all(t.join("full")).unwrap();
        std::fs::write(t.join("f"), "").unwrap();
        std::fs::write(t.join("full/inside"), "").unwrap();
        let which = pick(3);
        let ts = t.to_str().unwrap();
        let args: Vec<&str> = match which {
            0 => vec!["find", ts, "-name", "f", "-exec", "rm", "{}", ";", "-delete", "-print0"],
            1 => vec!["find", ts, "-name", "f", "(", "-delete", ",", "-delete", ")", "-print0"],
            _ => vec!["find", ts, "-name", "full", "-delete", "-print0"],
        };
        let (rc, out) = run(&args);
        let _ = std::fs::remove_dir_all(&d);
        if rc == 0 || !out.is_empty() { eprintln!("  input find T {:?}: exit {rc}, printed after -delete: {:?}; expected a non-zero exit status and -delete false", &args[2..], String::from_utf8_lossy(&out)); }
        assert!(rc != 0, "a removal that failed must make the exit status non-zero");
        assert!(out.is_empty(), "-delete must be false for an entry it could not remove");
    }
    #[test] fn e_delete_vanished() { kani::explore(delete_vanished_body) }

    fn make_tree(d: &Path) -> PathBuf {
        let t = d.join("t");
        std::fs::create_dir_all(t.join("sub")).unwrap();
        std::fs::create_dir_all(d.join("outside")).unwrap();
        std::fs::write(d.join("outside/target"), "x").unwrap();
        std::fs::write(t.join("f1"), "").unwrap();
        std::fs::write(t.join("keep"), "").unwrap();
        std::fs::write(t.join("sub/f2"), "").unwrap();
        symlink("f1", t.join("lf")).unwrap();
        symlink("sub", t.join("ld")).unwrap();
        symlink("../outside/target", t.join("lout")).unwrap();
        // names that end in a dot (only the entry "." itself is special to -delete)
        std::fs::write(t.join("notes."), "").unwrap();
        symlink("f1", t.join("link.")).unwrap();
        // a name that is not valid UTF-8
        std::fs::write(t.join(OsStr::from_bytes(b"x\xff.log")), "").unwrap();
        t
    }
    fn listing(root: &Path, out: &mut Vec<OsString>) {
        out.push(root.as_os_str().to_owned());
        if let Ok(md) = std::fs::symlink_metadata(root) { if md.is_dir() { let mut k: Vec<PathBuf> = std::fs::read_dir(root).unwrap().map(|e| e.unwrap().path()).collect(); k.sort(); for c in k { listing(&c, out); } } }
    }
    fn delete_body() {
        let tests: [&[&str]; 8] = [&["-true"], &["-name", "f*"], &["-type", "f"], &["-type", "l"], &["-type", "d"], &["-name", "sub"], &["!", "-name", "keep"], &["-type", "f", "-empty"]];
        let test = tests[pick(8)];
        // -P and -H only: under -L the link to a directory inside the tree aliases sub/, and "an identical tree" stops being one
        let mode = ["-P", "-H"][pick(2)];
        let (da, db) = (scratch("delA"), scratch("delB"));
        let (ta, tb) = (make_tree(&da), make_tree(&db));
        // reference: what -depth EXPR -print reports on the identical tree B
        let mut args_b: Vec<&str> = vec!["find", mode, tb.to_str().unwrap(), "-depth"];
        args_b.extend_from_slice(test);
        args_b.push("-print0");
        let (_rcb, outb) = run(&args_b);
        let reported: Vec<PathBuf> = outb.split(|&b| b == 0).filter(|s| !s.is_empty())
            .map(|s| ta.join(Path::new(OsStr::from_bytes(s)).strip_prefix(&tb).unwrap())).collect();
        let mut args_a: Vec<&str> = vec!["find", mode, ta.to_str().unwrap()];
        args_a.extend_from_slice(test);
        args_a.push("-delete");
        let mut before = Vec::new();
        listing(&da, &mut before);
        let (rca, _outa) = run(&args_a);
        let mut after = Vec::new();
        listing(&da, &mut after);
        // expected: the reported entries are gone, except directories that still have an unreported child (they cannot be removed)
        // -print0 shows names through to_string_lossy: entries are identified by their lossy text (unambiguous in this tree)
        let is_reported = |p: &Path| reported.iter().any(|r| Path::new(r.to_string_lossy().as_ref()) == Path::new(p.to_string_lossy().as_ref()));
        // an entry survives iff it is not reported, or it is a reported directory with a surviving child (it cannot be removed)
        fn survives(p: &Path, all: &[OsString], is_reported: &dyn Fn(&Path) -> bool) -> bool {
            if !is_reported(p) { return true; }
            all.iter().any(|c| { let c = Path::new(c); c.parent() == Some(p) && survives(c, all, is_reported) })
        }
        let mut survivors: Vec<OsString> = Vec::new();
        let mut undeletable = false;
        for b in &before {
            let p = Path::new(b);
            if survives(p, &before, &is_reported) { survivors.push(b.clone()); if is_reported(p) { undeletable = true; } }
        }
        let target_ok = std::fs::read(da.join("outside/target")).map(|c| c == b"x").unwrap_or(false);
        let _ = std::fs::remove_dir_all(&da);
        let _ = std::fs::remove_dir_all(&db);
        let show = |v: &Vec<OsString>| v.iter().map(|p| p.to_string_lossy().replace(da.to_str().unwrap(), "A")).collect::<Vec<_>>();
        if after != survivors || !target_ok || (rca != 0) != undeletable {
            eprintln!("  input find {mode} T {:?} -delete\n  input entries left     {:?} (exit {rca})\n  input expected to stay {:?} (exit {})", test, show(&after), show(&survivors), if undeletable { "non-zero" } else { "0" });
        }
        assert!(target_ok, "a link's target outside the tree was touched");
        assert!(after == survivors, "-delete did not remove exactly what -depth EXPR -print reports");
        assert!((rca != 0) == undeletable, "exit status: non-zero iff an entry could not be removed");
    }
    #[test] fn e_delete() { kani::explore(delete_body) }

    fn exec_spellings_body() {
        let d = scratch("execsp");
        let t = d.join("T");
        std::fs::create_dir_all(t.join("sub")).unwrap();
        std::fs::write(t.join("f"), "").unwrap();
        std::fs::write(t.join("sub/g"), "").unwrap();
        let ts = t.to_str().unwrap().to_string();
        let root = [ts.clone(), format!("{ts}/"), format!("{ts}//"), format!("{ts}/./sub"), format!("{ts}/sub/../sub")][pick(5)].clone();
        let extra = [None, Some("--version"), Some("-version"), Some("--help"), Some("-help"), Some("-print"), Some(")"), Some("-o"), Some("{}+")][pick(9)];
        let tpl = ["{}", "x{}y"][pick(2)];
        let dir_mode = pick(2) == 1;
        let log = d.join("log");
        let script = format!("pwd -P >> '{l}'; for a; do printf '<%s>' \"$a\" >> '{l}'; done; printf '\\0' >> '{l}'", l = log.display());
        // the entries and their paths as printed: the same walk with -print0 alone
        let (rc0, listed) = run(&["find", &root, "-sorted", "-type", "f", "-print0"]);
        let paths: Vec<Vec<u8>> = listed.split(|b| *b == 0).filter(|r| !r.is_empty()).map(|r| r.to_vec()).collect();
        let mut args: Vec<&str> = vec!["find", &root, "-sorted", "-type", "f", if dir_mode { "-execdir" } else { "-exec" }, "sh", "-c", &script, "sh"];
        if let Some(e) = extra { args.push(e); }
        args.push(tpl);
        args.extend_from_slice(&[";", "-print0"]);
        let (rc, out) = run(&args);
        let got = std::fs::read(&log).unwrap_or_default();
        let cwd: Vec<u8> = std::env::current_dir().unwrap().canonicalize().unwrap().as_os_str().as_bytes().to_vec();
        let mut want: Vec<u8> = Vec::new();
        for p in &paths {
            let pp = Path::new(OsStr::from_bytes(p));
            let shown: Vec<u8> = if dir_mode { let mut v = b"./".to_vec(); v.extend_from_slice(pp.file_name().unwrap().as_bytes()); v } else { p.clone() };
            let wd: Vec<u8> = if dir_mode { pp.parent().unwrap().canonicalize().unwrap().as_os_str().as_bytes().to_vec() } else { cwd.clone() };
            want.extend_from_slice(&wd);
            want.push(b'\n');
            if let Some(e) = extra { want.push(b'<'); want.extend_from_slice(&subst(e, &shown)); want.push(b'>'); }
            want.push(b'<'); want.extend_from_slice(&subst(tpl, &shown)); want.push(b'>');
            want.push(0);
        }
        let _ = std::fs::remove_dir_all(&d);
        let ok = rc0 == 0 && rc == 0 && !paths.is_empty() && got == want && out == listed;
        if !ok {
            eprintln!("  input find {:?} -sorted -type f {} sh -c SCRIPT sh {:?} {:?} ; -print0  (exit {rc})\n  input argv records {:?}\n  input expected     {:?}\n  input printed {:?}, expected {:?}",
                      root.replace(&ts, "T"), if dir_mode { "-execdir" } else { "-exec" }, extra, tpl,
                      String::from_utf8_lossy(&got).replace(&ts, "T"), String::from_utf8_lossy(&want).replace(&ts, "T"), String::from_utf8_lossy(&out).replace(&ts, "T"), String::from_utf8_lossy(&listed).replace(&ts, "T"));
        }
        assert!(ok, "the command did not receive the path as printed, or an argument between CMD and ; was not passed through");
    }
    #[test] fn e_exec_spellings() { kani::explore(exec_spellings_body) }
}
