//@ kani printf_enum
//@ append src/find/matchers/printf.rs
//@ module verif_enum_printf
//@ harness e_paths_plain kind=enum props=C16 bound=<<starting points d, ./d, /d, d/e, ., .., / x entries at depth 0, 1, 2 below them>> label=<<%p is the path as -print shows it, %H the starting point as given, %P the path below it, %d the depth, %f the last component, %h the part before it; %H, a separator and %P recompose %p (plain spellings)>>
//@ harness e_paths_slash kind=enum props=C16 bound=<<starting points d/, d//, d/., ./, d/./ x entries at depth 1, 2 below them>> label=<<%p, %P, %d and %f for starting points spelled with a trailing slash or a trailing /.>>
//@ harness e_paths_slash_h kind=enum props=C16 bound=<<starting points d/, d//, d/., ./, d/./ x entries at depth 1, 2 below them>> label=<<%H is the starting point as given and %h the part before the last component, and %H, a separator and %P recompose %p, for starting points spelled with a trailing slash or a trailing /.>>
//@ harness e_printf_roots kind=enum props=C16 bound=<<a real tree a/{f1, b/{f2}} with the starting points a and a/b in either order (one inside the other), or a/b and a sibling c x -type f / -mindepth 1 / -depth placed before -printf>> label=<<for every entry %H is the starting point of the walk that reached it and %P the path below that starting point, also when one starting point lies inside another and the same -printf serves both walks>>
//@ harness e_padding kind=enum props=C16 bound=<<widths none, 0, 1, 3, 10, 64, 65, 100, 300, 65535, 65536, 70000 x both justifications x values of 1, 4 and 12 characters (%f), a number (%d) and the empty value (%l on a non-link)>> label=<<a directive's value is padded with blanks to the minimum width, on the left by default and on the right with '-', and never truncated>>
//@ harness e_format_text kind=enum props=C16 bound=<<format strings of 0..=3 pieces over {a, e-acute, \n, \101, \0, \\, %%, %p, trailing text, \a, \b, \f, \r, \t, \v, \7, \12, the 3-byte euro sign}>> label=<<escapes and %% are replaced by their character, every other character is copied verbatim, nothing is appended>>
//@ harness e_inode_below_root kind=enum props=C16,C13 bound=<<every entry directly below / (mount points included where the sandbox has them)>> label=<<%i is the inode number of the status record (lstat under -P), also for entries that are mount points, where the directory listing reports a different number>>
//@ harness e_stat_directives kind=enum props=C16,C13 bound=<<a regular file (5 bytes, mode 0640), a directory (mode 2750), a symbolic link to the file, a dangling link x follow modes -P and -L>> label=<<%s %n %i %U %G in decimal and %m in octal (all twelve bits) come from the status record the follow mode selects; %y/%Y are the type letters of -type/-xtype; %l is the link target or nothing>>
//@ harness e_actions_true kind=enum props=C01,C16 bound=<<-printf / -fprintf with formats %p, %s, x%sy, %m %p, %l, %i on an existing file and on an entry whose file has just vanished (every status directive fails)>> label=<<-printf and -fprintf are true whatever happens while formatting - also when a directive cannot be evaluated - so what follows them in an -a chain is still evaluated, and the text before the failing directive has been written>>
#[cfg(verif_replay)]
mod verif_enum_printf {
    use super::*;
    use crate::find::matchers::Follow;
    use std::path::PathBuf;
//@SHIM@
    fn render(fmt: &str, entry: &WalkEntry) -> String {
        let p = Printf::new(fmt, None).unwrap();
        let mut out: Vec<u8> = Vec::new();
        p.print(entry, &mut out);
        String::from_utf8_lossy(&out).into_owned()
    }
    fn paths(roots: &[&str], min_depth: usize, with_p: bool, with_h: bool) {
        let root = roots[pick(roots.len())];
        let depth = min_depth + pick(3 - min_depth);
        let names = ["sub", "f"];
        // walkdir reports a child as parent.join(name)
        let mut path = PathBuf::from(root);
        for n in &names[..depth] { path = path.join(n); }
        let text = path.to_string_lossy().into_owned();
        let entry = WalkEntry::new(path, depth, Follow::Never);
        let below = names[..depth].join("/");
        let mut bad: Vec<String> = Vec::new();
        let mut expect = |what: &str, got: String, want: String| { if got != want { bad.push(format!("{what}: got {got:?}, expected {want:?}")); } };
        if with_p {
            expect("%p", render("%p", &entry), text.clone());
            expect("%P", render("%P", &entry), below.clone());
            expect("%d", render("%d", &entry), depth.to_string());
            if depth > 0 { expect("%f", render("%f", &entry), names[depth - 1].to_string()); }
        }
        if with_h { expect("%H", render("%H", &entry), root.to_string()); }
        if with_h && depth > 0 {
            expect("%h", render("%h", &entry), text[..text.len() - names[depth - 1].len() - 1].to_string());
            let h = render("%H", &entry);
            let sep = if h.ends_with('/') { "" } else { "/" };
            expect("%H/%P", format!("{h}{sep}{}", render("%P", &entry)), text.clone());
        }
        if !bad.is_empty() { eprintln!("  input starting point {root:?}, entry {text:?} at depth {depth}\n  input {}", bad.join("\n  input ")); }
        assert!(bad.is_empty(), "a path directive differs from the statement");
    }
    fn plain_body() { paths(&["d", "./d", "/d", "d/e", ".", "..", "/"], 0, true, true) }
    fn slash_body() { paths(&["d/", "d//", "d/.", "./", "d/./"], 1, true, false) }
    fn slash_h_body() { paths(&["d/", "d//", "d/.", "./", "d/./"], 1, false, true) }
    #[test] fn e_paths_plain() { kani::explore(plain_body) }
    #[test] fn e_paths_slash() { kani::explore(slash_body) }
    #[test] fn e_paths_slash_h() { kani::explore(slash_h_body) }

    fn printf_roots_body() {
        use crate::find::tests::FakeDependencies;
        let d = std::env::temp_dir().join(format!("verif-enum-proots-{}", std::process::id()));
        let _ = std::fs::remove_dir_all(&d);
        std::fs::create_dir_all(d.join("a/b")).unwrap();
        std::fs::create_dir_all(d.join("c")).unwrap();
        std::fs::write(d.join("a/f1"), "").unwrap();
        std::fs::write(d.join("a/b/f2"), "").unwrap();
        std::fs::write(d.join("c/f3"), "").unwrap();
        let ds = d.to_str().unwrap().to_string();
        let orders: [[&str; 2]; 3] = [["a", "a/b"], ["a/b", "a"], ["a/b", "c"]];
        let roots: Vec<String> = orders[pick(3)].iter().map(|r| format!("{ds}/{r}")).collect();
        let pre: &[&str] = [&["-type", "f"][..], &["-mindepth", "1", "-type", "f"][..], &["-depth", "-type", "f"][..]][pick(3)];
        let mut args: Vec<&str> = vec!["find", &roots[0], &roots[1], "-sorted"];
        args.extend_from_slice(pre);
        args.extend_from_slice(&["-printf", "%H|%P|%p\\n"]);
        let deps = FakeDependencies::new();
        let _rc = crate::find::find_main(&args, &deps);
        let got = String::from_utf8_lossy(deps.output.borrow().get_ref()).into_owned();
        // the statement: each file below a starting point, in walk order, with that starting point as %H
        let mut want = String::new();
        for r in &roots {
            let mut files: Vec<String> = Vec::new();
            fn collect(p: &std::path::Path, out: &mut Vec<String>) { let mut k: Vec<_> = std::fs::read_dir(p).unwrap().map(|e| e.unwrap().path()).collect(); k.sort(); for c in k { if c.is_dir() { collect(&c, out); } else { out.push(c.to_string_lossy().into_owned()); } } }
            collect(std::path::Path::new(r), &mut files);
            // -sorted pre-order and -depth post-order list the plain files of these trees in the same relative order, except that
            // a directory's own files and its subdirectories interleave by name: compare as sets per starting point instead
            files.sort();
            for f in files { want.push_str(&format!("{r}|{}|{f}\n", &f[r.len() + 1..])); }
        }
        let norm = |t: &str| { let mut l: Vec<&str> = t.lines().collect(); l.sort(); l.join("\n") };
        let _ = std::fs::remove_dir_all(&d);
        if norm(&got) != norm(&want) { eprintln!("  input find {:?}\n  input printed  {:?}\n  input expected {:?} (any order)", args[1..].iter().map(|a| a.replace(&ds, "D")).collect::<Vec<_>>(), got.replace(&ds, "D"), want.replace(&ds, "D")); }
        assert!(norm(&got) == norm(&want), "%H / %P with several starting points");
    }
    #[test] fn e_printf_roots() { kani::explore(printf_roots_body) }

    fn padding_body() {
        let widths = [None, Some(0usize), Some(1), Some(3), Some(10), Some(64), Some(65), Some(100), Some(300), Some(65535), Some(65536), Some(70000)];
        let w = widths[pick(widths.len())];
        let left = pick(2) == 1;
        let names = ["a", "abcd", "abcdefghijkl"];
        // directive: %f (the name), %d (the depth) or %l on something that is not a link (the empty value)
        let which = pick(3);
        let use_depth = which == 1;
        let name = names[pick(3)];
        let entry = WalkEntry::new(PathBuf::from("d").join(name), 1, Follow::Never);
        let value = if which == 2 { String::new() } else if use_depth { "1".to_string() } else { name.to_string() };
        let fmt = format!("[%{}{}{}]", if left { "-" } else { "" }, w.map(|w| w.to_string()).unwrap_or_default(), ["f", "d", "l"][which]);
        if left && w.is_none() { return; } // '%-f' without a width: not in the statement
        let pad = " ".repeat(w.unwrap_or(0).saturating_sub(value.chars().count()));
        let want = if left { format!("[{value}{pad}]") } else { format!("[{pad}{value}]") };
        let got = render(&fmt, &entry);
        if got != want { eprintln!("  input format {fmt:?} on value {value:?}\n  input got      {got:?}\n  input expected {want:?}"); }
        assert!(got == want, "padding / justification");
    }
    #[test] fn e_padding() { kani::explore(padding_body) }

    fn format_text_body() {
        let pieces: [(&str, &str); 18] = [("\\7", "\x07"), ("\\12", "\n"), ("\u{20ac}", "\u{20ac}"),
                                          ("a", "a"), ("\u{e9}", "\u{e9}"), ("\\n", "\n"), ("\\101", "A"), ("\\0", "\0"), ("\\\\", "\\"), ("%%", "%"), ("%p", "d/f"), (" x", " x"),
                                          ("\\a", "\x07"), ("\\b", "\x08"), ("\\f", "\x0c"), ("\\r", "\r"), ("\\t", "\t"), ("\\v", "\x0b")];
        let n = pick(4);
        let (mut fmt, mut want) = (String::new(), String::new());
        for _ in 0..n { let (a, b) = pieces[pick(pieces.len())]; fmt.push_str(a); want.push_str(b); }
        let entry = WalkEntry::new(PathBuf::from("d").join("f"), 1, Follow::Never);
        // short octal escapes (\\7, \\12) are not in the statement's list: a format using them may be rejected, but never by a panic,
        // and if it is accepted it must mean what C makes of it
        if Printf::new(&fmt, None).is_err() { assert!(fmt.contains("\\7") || fmt.contains("\\12"), "a format made of listed escapes was rejected"); return; }
        let got = render(&fmt, &entry);
        if got != want { eprintln!("  input format {fmt:?}\n  input got      {got:?}\n  input expected {want:?}"); }
        assert!(got == want, "literal text, escapes and %%");
    }
    #[test] fn e_format_text() { kani::explore(format_text_body) }

    fn inode_body() {
        use std::os::unix::fs::MetadataExt;
        use std::os::unix::ffi::OsStrExt;
        let mut bad = Vec::new();
        let mut n = 0;
        for e in std::fs::read_dir("/").unwrap() {
            let p = e.unwrap().path();
            let md = match std::fs::symlink_metadata(&p) { Ok(m) => m, Err(_) => continue };
            let entry = WalkEntry::new(p.clone(), 1, Follow::Never);
            // the entry as the walk delivers it (a directory-listing entry), when walkdir can be asked for it
            let via_walk = walkdir::WalkDir::new("/").min_depth(1).max_depth(1).into_iter().filter_map(|r| r.ok()).find(|d| d.path().as_os_str().as_bytes() == p.as_os_str().as_bytes());
            let shown = match via_walk { Some(d) => match WalkEntry::from_walkdir(Ok(d), Follow::Never) { Ok(we) => render("%i", &we), Err(_) => continue }, None => render("%i", &entry) };
            n += 1;
            if shown != md.ino().to_string() { bad.push(format!("{}: %i prints {shown}, lstat says {}", p.display(), md.ino())); }
        }
        if !bad.is_empty() { eprintln!("  input entries below /: {}\n  input {}", n, bad.join("\n  input ")); }
        assert!(bad.is_empty(), "%i is not the inode number of the status record");
    }
    #[test] fn e_inode_below_root() { kani::explore(inode_body) }

    fn stat_body() {
        use std::os::unix::fs::{symlink, MetadataExt, PermissionsExt};
        let which = pick(4);
        let follow = [Follow::Never, Follow::Always][pick(2)];
        let d = std::env::temp_dir().join(format!("verif-enum-printf-{}", std::process::id()));
        let _ = std::fs::remove_dir_all(&d);
        std::fs::create_dir_all(&d).unwrap();
        let file = d.join("file");
        std::fs::write(&file, "12345").unwrap();
        std::fs::set_permissions(&file, std::fs::Permissions::from_mode(0o640)).unwrap();
        let dir = d.join("dir");
        std::fs::create_dir(&dir).unwrap();
        std::fs::set_permissions(&dir, std::fs::Permissions::from_mode(0o2750)).unwrap();
        let link = d.join("link");
        symlink("file", &link).unwrap();
        let dangling = d.join("dangling");
        symlink("nowhere", &dangling).unwrap();
        let path = [&file, &dir, &link, &dangling][which].clone();
        let entry = WalkEntry::new(path.clone(), 1, follow);
        // the record the follow mode selects: stat() when following, falling back to lstat() for a dangling link
        let lrec = std::fs::symlink_metadata(&path).unwrap();
        let rec = if follow == Follow::Always { std::fs::metadata(&path).unwrap_or(lrec.clone()) } else { lrec.clone() };
        let other = if follow == Follow::Always { lrec.clone() } else { std::fs::metadata(&path).unwrap_or(lrec.clone()) };
        let letter = |m: &std::fs::Metadata| if m.file_type().is_symlink() { "l" } else if m.is_dir() { "d" } else { "f" };
        let want = format!("{} {} {} {} {} {:o} {} {}", rec.len(), rec.nlink(), rec.ino(), rec.uid(), rec.gid(), rec.mode() & 0o7777, letter(&rec),
                           if which == 3 { "-" } else { letter(&other) });
        // %Y of a dangling link is left open (GNU prints N where -xtype l is true): not compared
        let got = render(if which == 3 { "%s %n %i %U %G %m %y -" } else { "%s %n %i %U %G %m %y %Y" }, &entry);
        // %l of a link that the follow mode resolves is left open by the statement: compared under -P only
        let want_l = if follow != Follow::Never { render("%l", &entry) } else if lrec.file_type().is_symlink() { std::fs::read_link(&path).unwrap().to_string_lossy().into_owned() } else { String::new() };
        let got_l = render("%l", &entry);
        let _ = std::fs::remove_dir_all(&d);
        if got != want || got_l != want_l { eprintln!("  input entry kind {which} (0 file, 1 directory, 2 link to file, 3 dangling link), follow {follow:?}\n  input %s %n %i %U %G %m %y %Y: got {got:?}, expected {want:?}\n  input %l: got {got_l:?}, expected {want_l:?}"); }
        assert!(got == want, "stat directives");
        assert!(got_l == want_l, "%l");
    }
    #[test] fn e_stat_directives() { kani::explore(stat_body) }

    fn actions_true_body() {
        use crate::find::tests::FakeDependencies;
        let fmt = ["%p", "%s", "x%sy", "%m %p", "%l", "%i"][pick(6)];
        let vanish = pick(2) == 1;
        let to_file = pick(2) == 1;
        let d = std::env::temp_dir().join(format!("verif-enum-acttrue-{}", std::process::id()));
        let _ = std::fs::remove_dir_all(&d);
        std::fs::create_dir_all(d.join("t")).unwrap();
        std::fs::write(d.join("t/f"), "12345").unwrap();
        let ds = d.to_str().unwrap().to_string();
        let root = format!("{ds}/t");
        let log = format!("{ds}/log");
        let full = format!("<{fmt}>");
        // -delete makes the file vanish before the format is evaluated: every status directive then fails
        let mut args: Vec<&str> = vec!["find", &root, "-type", "f"];
        if vanish { args.push("-delete"); }
        if to_file { args.extend_from_slice(&["-fprintf", &log, &full]); } else { args.extend_from_slice(&["-printf", &full]); }
        args.extend_from_slice(&["-printf", "|after\\n"]);
        let deps = FakeDependencies::new();
        let _rc = crate::find::find_main(&args, &deps);
        let mut got = String::from_utf8_lossy(deps.output.borrow().get_ref()).into_owned();
        if to_file { got = format!("{}{}", std::fs::read_to_string(&log).unwrap_or_default(), got); }
        let _ = std::fs::remove_dir_all(&d);
        // whatever the first action wrote, it was true: the second one ran, once
        let ok = got.ends_with("|after\n") && got.matches("|after\n").count() == 1 && got.starts_with('<');
        if !ok { eprintln!("  input find T -type f{} {} {full:?} -printf '|after\\n': output {:?}", if vanish { " -delete" } else { "" }, if to_file { "-fprintf LOG" } else { "-printf" }, got.replace(&ds, "D")); }
        assert!(ok, "-printf / -fprintf must be true: the action after it was not evaluated exactly once");
    }
    #[test] fn e_actions_true() { kani::explore(actions_true_body) }
}
