//@ kani numeric
//@ append src/find/matchers/mod.rs
//@ module verif_kani_numeric
//@ harness k_comparable_matches kind=complete props=C14 covers=numeric::ComparableValue::matches label=<<ComparableValue::matches: +N strictly greater, -N strictly less, N equal, for every u64 limit and every u64 measured value>>
//@ harness k_comparable_imatches kind=complete props=C14,C15 covers=numeric::ComparableValue::imatches label=<<ComparableValue::imatches on every i64 measured value agrees with the mathematical comparison against every u64 limit (negative values are less than every limit)>>
// Loop-free, full-domain harnesses on the real ComparableValue: a complete CBMC proof of the comparison semantics.
#[cfg(any(kani, verif_replay))]
mod verif_kani_numeric {
    use super::*;
//@SHIM@
    fn form(k: u8, n: u64) -> ComparableValue {
        if k == 0 { ComparableValue::MoreThan(n) } else if k == 1 { ComparableValue::EqualTo(n) } else { ComparableValue::LessThan(n) }
    }
    #[cfg_attr(kani, kani::proof)] #[cfg_attr(not(kani), test)]
    fn k_comparable_matches() {
        let k: u8 = kani::any(); kani::assume(k < 3);
        let n: u64 = kani::any();
        let v: u64 = kani::any();
        let got = form(k, n).matches(v);
        let want = if k == 0 { v > n } else if k == 1 { v == n } else { v < n };
        assert!(got == want, "+N / N / -N comparison");
    }
    #[cfg_attr(kani, kani::proof)] #[cfg_attr(not(kani), test)]
    fn k_comparable_imatches() {
        let k: u8 = kani::any(); kani::assume(k < 3);
        let n: u64 = kani::any();
        let v: i64 = kani::any();
        let got = form(k, n).imatches(v);
        // compare as mathematical integers
        let (vi, ni) = (v as i128, n as i128);
        let want = if k == 0 { vi > ni } else if k == 1 { vi == ni } else { vi < ni };
        assert!(got == want, "signed +N / N / -N comparison");
    }
}
