//@ kani printer_enum
//@ append src/find/matchers/printer.rs
//@ module verif_enum_printer
//@ harness e_print_exact kind=enum props=C07 bound=<<paths of 1..=3 pieces over {a, blank, newline, ', ", backslash, *, -, {}, e-acute} below the starting point d x -print / -print0 x sinks that accept at most 1, 2, 3 or all bytes per write()>> label=<<-print0 / -print emit exactly the path and one NUL / newline, nothing escaped, normalised, added or lost, also when the sink takes the bytes in several short writes>>
#[cfg(verif_replay)]
mod verif_enum_printer {
    use super::*;
    use crate::find::matchers::Follow;
    use crate::find::tests::FakeDependencies;
    use std::path::PathBuf;
//@SHIM@
    /// a sink that takes at most `max` bytes per write(), as a pipe or a line-buffered stdout may
    struct Short { got: Vec<u8>, max: usize }
    impl Write for Short {
        fn write(&mut self, buf: &[u8]) -> std::io::Result<usize> {
            let n = buf.len().min(self.max);
            self.got.extend_from_slice(&buf[..n]);
            Ok(n)
        }
        fn flush(&mut self) -> std::io::Result<()> { Ok(()) }
    }
    fn body() {
        let pieces = ["a", " ", "\n", "'", "\"", "\\", "*", "-", "{}", "\u{e9}"];
        let n = 1 + pick(3);
        let name: String = (0..n).map(|_| pieces[pick(pieces.len())]).collect();
        let path = PathBuf::from("d").join(&name);
        let nul = pick(2) == 1;
        let max = [1usize, 2, 3, usize::MAX][pick(4)];
        let entry = WalkEntry::new(path, 1, Follow::Never);
        let deps = FakeDependencies::new();
        let mut io = deps.new_matcher_io();
        let p = Printer::new(if nul { PrintDelimiter::Null } else { PrintDelimiter::Newline }, None);
        let mut sink = Short { got: Vec::new(), max };
        p.print(&entry, &mut io, &mut sink, false);
        let mut want = format!("d/{name}").into_bytes();
        want.push(if nul { 0 } else { b'\n' });
        if sink.got != want { eprintln!("  input path {:?}, delimiter {}, sink takes {} bytes per write\n  input written  {:?}\n  input expected {:?}", format!("d/{name}"), if nul { "NUL" } else { "newline" }, max, String::from_utf8_lossy(&sink.got), String::from_utf8_lossy(&want)); }
        assert!(sink.got == want, "printed bytes are not exactly path + delimiter");
    }
    #[test] fn e_print_exact() { kani::explore(body) }
}
