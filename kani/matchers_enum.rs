//@ kani matchers_enum
//@ append src/find/matchers/mod.rs
//@ module verif_enum_matchers
//@ harness e_numeric_operand kind=enum props=C14,C11 bound=<<every operand of 0..=4 symbols over {+, -, 0, 1, 9, x}, plus 18446744073709551615 and 18446744073709551616 with each sign>> label=<<a numeric operand is an optional + or - followed by decimal digits only: +N reads as 'greater than N', -N as 'less than N' (also for N = 0), N as 'equal to N'; anything else, and values beyond u64, are rejected>>
//@ harness e_size kind=enum props=C14 bound=<<file sizes 0, 1, 2, 511, 512, 513, 1024, 1025, 2^20, 2^20+1 (sparse files) x operands N, +N, -N for N in {0, 1, 2, 3, 2^34, 2^44, 2^54, 2^55, 2^63, 2^64-1} x units c, w, b, none, k, M, G>> label=<<-size compares N with the size in bytes divided by the unit, rounded up to the next whole unit: N equal, +N greater, -N less (exact arithmetic, also where N x unit exceeds 2^64)>>
//@ harness e_type_tests kind=enum props=C13 bound=<<a real tree with a file (mode 0600), a directory, a link to the file, a link to the directory, a dangling link, each also given as starting point x -P/-H/-L x -type/-xtype with letters f, d, l x alone, followed by -perm 600, or preceded by -perm 600>> label=<<-type tests the record the follow mode selects (lstat under -P, stat falling back to lstat under -L, stat for starting points only under -H), -xtype makes the opposite choice, and -perm reads the record of the follow mode whatever was evaluated before it on the same entry>>
//@ harness e_iregex_case kind=enum props=C17 bound=<<patterns abc, a.c, [a-c]+, [0-^]+, [_-~]+, [^a]b, (letters also upper-cased) x paths abc, ABC, aBc, 123, a-c, xb>> label=<<-iregex ignores letter case: its verdict does not change when the letters of the path or of the pattern change case, and it equals -regex when both are lower-cased and the pattern has no range spanning only one case>>
//@ harness e_regextype_scope kind=enum props=C17 bound=<<syntaxes emacs, posix-basic, posix-extended, grep x patterns a+, a\+, a{2}, a\{2\}, a|b, a\|b, (a), \(a\) x paths aa, a+, a{2}, a|b, a, b, (a) x -regextype placed before the -regex directly, inside an earlier parenthesis group, inside the same group, or after another -regextype>> label=<<-regex uses the syntax of the nearest preceding -regextype on the command line, wherever parentheses are>>
//@ harness e_regex_whole_path kind=enum props=C17 bound=<<literal patterns and paths of 1..=3 symbols over {a, b, /, e-acute}; -regex and -iregex (paths also with A)>> label=<<a pattern without metacharacters matches exactly the path equal to it (ignoring letter case for -iregex): never a prefix, never a substring, multi-byte characters included>>
#[cfg(verif_replay)]
mod verif_enum_matchers {
    use super::*;
    use crate::find::tests::FakeDependencies;
//@SHIM@
    fn numeric_body() {
        let syms = ["+", "-", "0", "1", "9", "x"];
        let big = pick(3);
        let s: String = if big == 0 {
            let n = pick(5);
            (0..n).map(|_| syms[pick(syms.len())]).collect()
        } else {
            format!("{}{}", ["", "+", "-"][pick(3)], if big == 1 { "18446744073709551615" } else { "18446744073709551616" })
        };
        // the statement's reading of the operand
        let (sign, digits) = match s.chars().next() { Some('+') => ('+', &s[1..]), Some('-') => ('-', &s[1..]), _ => (' ', &s[..]) };
        let want: Option<(char, u64)> = if !digits.is_empty() && digits.chars().all(|c| c.is_ascii_digit()) { digits.parse::<u64>().ok().map(|v| (sign, v)) } else { None };
        let got = match convert_arg_to_comparable_value("-links", &s) {
            Ok(ComparableValue::MoreThan(v)) => Some(('+', v)),
            Ok(ComparableValue::LessThan(v)) => Some(('-', v)),
            Ok(ComparableValue::EqualTo(v)) => Some((' ', v)),
            Err(_) => None,
        };
        if got != want { eprintln!("  input operand {s:?}: read as {got:?}, expected {want:?}  ('+' greater, '-' less, ' ' equal)"); }
        assert!(got == want, "numeric operand");
    }
    #[test] fn e_numeric_operand() { kani::explore(numeric_body) }

    fn size_body() {
        let sizes = [0u64, 1, 2, 511, 512, 513, 1024, 1025, 1 << 20, (1 << 20) + 1];
        let ns = [0u64, 1, 2, 3, 1 << 34, 1 << 44, 1 << 54, 1 << 55, 1 << 63, u64::MAX];
        let units = [("c", 1u128), ("w", 2), ("b", 512), ("", 512), ("k", 1 << 10), ("M", 1 << 20), ("G", 1 << 30)];
        let (size, n, (u, ub), form) = (sizes[pick(sizes.len())], ns[pick(ns.len())], units[pick(units.len())], pick(3));
        let d = std::env::temp_dir().join(format!("verif-enum-size-{}", std::process::id()));
        std::fs::create_dir_all(&d).unwrap();
        let f = d.join("f");
        std::fs::File::create(&f).unwrap().set_len(size).unwrap();
        let operand = format!("{}{n}{u}", ["", "+", "-"][form]);
        let got = eval(&["-size", &operand, "-a", "-true"], f.to_str().unwrap());
        let measured: u128 = (size as u128 + ub - 1) / ub;
        let want = match form { 0 => measured == n as u128, 1 => measured > n as u128, _ => measured < n as u128 };
        let _ = std::fs::remove_dir_all(&d);
        if got != Some(want) { eprintln!("  input file of {size} bytes, -size {operand}: {got:?}, expected {want} (measured {measured} units)"); }
        assert!(got == Some(want), "-size rounding / comparison");
    }
    #[test] fn e_size() { kani::explore(size_body) }

    fn type_tests_body() {
        use std::os::unix::fs::{symlink, PermissionsExt};
        let d = std::env::temp_dir().join(format!("verif-enum-type-{}", std::process::id()));
        let _ = std::fs::remove_dir_all(&d);
        std::fs::create_dir_all(d.join("t/dir")).unwrap();
        std::fs::write(d.join("t/file"), "x").unwrap();
        std::fs::set_permissions(d.join("t/file"), std::fs::Permissions::from_mode(0o600)).unwrap();
        std::fs::set_permissions(d.join("t/dir"), std::fs::Permissions::from_mode(0o755)).unwrap();
        symlink("file", d.join("t/lfile")).unwrap();
        symlink("dir", d.join("t/ldir")).unwrap();
        symlink("nowhere", d.join("t/dang")).unwrap();
        let names = ["file", "dir", "lfile", "ldir", "dang"];
        let which = pick(5);
        let as_root = pick(2) == 1; // the entry is itself the starting point (depth 0) or is found below t (depth 1)
        let mode = pick(3);
        let xtype = pick(2) == 1;
        let letter = ["f", "d", "l"][pick(3)];
        let perm_pos = pick(3); // 0: no -perm, 1: after the type test, 2: before it
        let path = d.join("t").join(names[which]);
        let depth = if as_root { 0 } else { 1 };
        let follows = mode == 2 || (mode == 1 && depth == 0);
        let rec = |follow: bool| if follow { std::fs::metadata(&path).or_else(|_| std::fs::symlink_metadata(&path)).unwrap() } else { std::fs::symlink_metadata(&path).unwrap() };
        let kind = |m: &std::fs::Metadata| if m.file_type().is_symlink() { "l" } else if m.is_dir() { "d" } else { "f" };
        let type_ok = kind(&rec(if xtype { !follows } else { follows })) == letter;
        let perm_ok = rec(follows).permissions().mode() & 0o7777 == 0o600;
        let want = type_ok && (perm_pos == 0 || perm_ok);
        let start = if as_root { path.clone() } else { d.join("t") };
        let mut args: Vec<&str> = vec!["find", ["-P", "-H", "-L"][mode], start.to_str().unwrap(), "-maxdepth", "1"];
        if perm_pos == 2 { args.extend_from_slice(&["-perm", "600"]); }
        args.extend_from_slice(&[if xtype { "-xtype" } else { "-type" }, letter]);
        if perm_pos == 1 { args.extend_from_slice(&["-perm", "600"]); }
        args.push("-print0");
        let deps = FakeDependencies::new();
        let _rc = crate::find::find_main(&args, &deps);
        let out = deps.output.borrow().get_ref().clone();
        let got = out.split(|&b| b == 0).any(|p| p == path.to_str().unwrap().as_bytes());
        let _ = std::fs::remove_dir_all(&d);
        if got != want { eprintln!("  input find {:?} on {} (depth {depth}): selected {got}, expected {want}", args[1..].iter().map(|a| a.replace(d.to_str().unwrap(), "D")).collect::<Vec<_>>(), names[which]); }
        assert!(got == want, "type / xtype / perm on the record the follow mode selects");
    }
    #[test] fn e_type_tests() { kani::explore(type_tests_body) }

    fn iregex_case_body() {
        let pats = ["abc", "a.c", "[a-c]+", "[0-^]+", "[_-~]+", "[^a]b"];
        let paths = ["abc", "ABC", "aBc", "123", "a-c", "xb"];
        let (pat, path) = (pats[pick(6)], paths[pick(6)]);
        let up_pat = pick(2) == 1;
        // letters outside brackets only are upper-cased in the pattern variant: ranges keep their end points
        let p2: String = if up_pat { let mut inb = false; pat.chars().map(|c| { if c == '[' { inb = true; } if c == ']' { inb = false; } if inb { c } else { c.to_ascii_uppercase() } }).collect() } else { pat.to_string() };
        let base = eval(&["-iregex", pat, "-a", "-true"], &path.to_lowercase());
        let got = eval(&["-iregex", &p2, "-a", "-true"], path);
        if got != base { eprintln!("  input -iregex {p2:?} on {path:?}: {got:?}; -iregex {pat:?} on {:?}: {base:?}", path.to_lowercase()); }
        assert!(got == base, "-iregex verdict changes with the letter case of the path or of the pattern");
    }
    #[test] fn e_iregex_case() { kani::explore(iregex_case_body) }

    fn eval(args: &[&str], path: &str) -> Option<bool> {
        let mut config = Config::default();
        let m = build_top_level_matcher(args, &mut config).ok()?;
        let deps = FakeDependencies::new();
        Some(m.matches(&WalkEntry::new(path, 0, Follow::Never), &mut deps.new_matcher_io()))
    }
    fn regextype_body() {
        let types = [("emacs", regex::RegexType::Emacs), ("posix-basic", regex::RegexType::PosixBasic), ("posix-extended", regex::RegexType::PosixExtended), ("grep", regex::RegexType::Grep)];
        let (tname, ty) = types[pick(4)];
        let other = types[pick(4)].0;
        let pat = ["a+", "a\\+", "a{2}", "a\\{2\\}", "a|b", "a\\|b", "(a)", "\\(a\\)"][pick(8)];
        let path = ["aa", "a+", "a{2}", "a|b", "a", "b", "(a)"][pick(7)];
        let direct = match regex::RegexMatcher::new(ty, pat, false) {
            Ok(m) => { let deps = FakeDependencies::new(); Some(m.matches(&WalkEntry::new(path, 0, Follow::Never), &mut deps.new_matcher_io())) }
            Err(_) => None,
        };
        // -fprint-free forms: the final -false keeps the default -print away
        let forms: [Vec<&str>; 4] = [
            vec!["-regextype", tname, "-regex", pat],
            vec!["(", "-regextype", tname, ")", "-regex", pat],
            vec!["(", "-regextype", tname, "-regex", pat, ")"],
            vec!["-regextype", other, "(", "-true", "-regextype", tname, ")", "-regex", pat],
        ];
        let form = &forms[pick(4)];
        let mut args = form.clone();
        args.extend_from_slice(&["-a", "-true"]);
        let got = eval(&args, path);
        if got != direct { eprintln!("  input find {:?} on path {path:?}: {got:?}; the pattern compiled directly as {tname}: {direct:?}", form); }
        assert!(got == direct, "-regex is not compiled in the syntax of the nearest preceding -regextype");
    }
    #[test] fn e_regextype_scope() { kani::explore(regextype_body) }

    fn whole_path_body() {
        let syms = ["a", "b", "/", "\u{e9}"];
        let icase = pick(2) == 1;
        let np = 1 + pick(3);
        let pat: String = (0..np).map(|_| syms[pick(4)]).collect();
        let psyms: &[&str] = if icase { &["a", "A", "b", "/", "\u{e9}"] } else { &syms };
        let ns = 1 + pick(3);
        let path: String = (0..ns).map(|_| psyms[pick(psyms.len())]).collect();
        let want = if icase { path.to_lowercase() == pat.to_lowercase() } else { path == pat };
        let got = eval(&[if icase { "-iregex" } else { "-regex" }, &pat, "-a", "-true"], &path);
        if got != Some(want) { eprintln!("  input {} {pat:?} on path {path:?}: {got:?}, expected {want}", if icase { "-iregex" } else { "-regex" }); }
        assert!(got == Some(want), "a literal pattern must match exactly the whole path");
    }
    #[test] fn e_regex_whole_path() { kani::explore(whole_path_body) }
}
