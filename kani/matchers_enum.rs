//@ kani matchers_enum
//@ append src/find/matchers/mod.rs
//@ module verif_enum_matchers
//@ harness e_numeric_operand kind=enum props=C14,C11,C15 bound=<<every operand of 0..=4 symbols over {+, -, 0, 1, 9, x}, plus 18446744073709551615 and 18446744073709551616 with each sign>> label=<<a numeric operand is an optional + or - followed by decimal digits only: +N reads as 'greater than N', -N as 'less than N' (also for N = 0), N as 'equal to N'; anything else, and values beyond u64, are rejected>>
//@ harness e_size kind=enum props=C14 bound=<<file sizes 0, 1, 2, 511, 512, 513, 1024, 1025, 2^20, 2^20+1 (sparse files) x operands N, +N, -N for N in {0, 1, 2, 3, 2^34, 2^44, 2^54, 2^55, 2^63, 2^64-1} x units c, w, b, none, k, M, G>> label=<<-size compares N with the size in bytes divided by the unit, rounded up to the next whole unit: N equal, +N greater, -N less (exact arithmetic, also where N x unit exceeds 2^64)>>
//@ harness e_size_kinds kind=enum props=C14 bound=<<a directory, a FIFO and an empty regular file x -size N, +N, -N for N in 0, 1, 8 x units c, b, k>> label=<<-size reads the size of the status record uniformly, whatever the file type: exactly one of N, +N, -N is true and it is the one the rounded-up st_size dictates>>
//@ harness e_ids kind=enum props=C14,C13 bound=<<files owned by uid/gid 0 and (when running as root) 1234/4321 x -uid/-gid N, +N, -N for N in {0, 1, 1233, 1234, 1235, 4321, 2^32-1, 2^32, 2^32+1234, 2^32+4321, 2^63, 2^64-1}>> label=<<-uid/-gid compare the numeric id with N as integers: N equal, +N greater, -N less, for every N up to 2^64-1>>
//@ harness e_regex_language kind=enum props=C17 bound=<<patterns d/ followed by 1..=3 items, each an atom a, b or . with an optional *, +, ?, {0,2} or {1,2}, written in each of emacs, posix-basic, posix-extended and grep syntax x paths d/ + up to 3 letters over {a, b}>> label=<<-regex is true exactly when the whole path is in the language of the pattern (oracle: the same pattern as an anchored regex of the independent `regex` crate)>>
//@ harness e_perm_operands kind=enum props=C11,C13 bound=<<-perm operands: empty, -, /, a lone comma, u+r with a trailing, leading or doubled comma, u+q, 8, 77777 (must be rejected) and u+r, 644, -u+r,g+w, /222, =, a= (must be accepted)>> label=<<an invalid -perm operand (an empty clause, an unknown permission letter, a digit that is not octal, too many digits) is rejected when the command line is parsed; valid symbolic and octal operands are accepted>>
//@ harness e_samefile kind=enum props=C13 bound=<<a real tree with a file, a hard link to it, a link to it, a link to a missing file (ENOENT) and a link through a non-directory (ENOTDIR) x each as -samefile operand x each as entry x -P/-L>> label=<<-samefile F is true exactly when the entry's status record (lstat under -P, stat falling back to lstat for dangling links under -L) names the same device and inode as F's>>
//@ harness e_inum_below_root kind=enum props=C13,C14 bound=<<every entry directly below / (mount points included where the sandbox has them)>> label=<<-inum N selects an entry iff N is the inode number of its status record, also for mount points, where the directory listing reports another number>>
//@ harness e_type_tests kind=enum props=C13 bound=<<a real tree with a file (mode 0600), a directory, a link to the file, a link to the directory, a dangling link, each also given as starting point x -P/-H/-L x -type/-xtype with letters f, d, l x alone, followed by -perm 600, or preceded by -perm 600>> label=<<-type tests the record the follow mode selects (lstat under -P, stat falling back to lstat under -L, stat for starting points only under -H), -xtype makes the opposite choice, and -perm reads the record of the follow mode whatever was evaluated before it on the same entry>>
//@ harness e_regex_nonutf8 kind=enum props=C17 bound=<<the pattern .* on the path d/caf<0xE9>>> label=<<the path as -print would print it is a string also when a name is not valid UTF-8: .* accepts it>>
//@ harness e_iregex_case kind=enum props=C17 bound=<<patterns abc, a.c, [a-c]+, [0-^]+, [_-~]+, [^a]b, (letters also upper-cased) x paths abc, ABC, aBc, 123, a-c, xb>> label=<<-iregex ignores letter case: its verdict does not change when the letters of the path or of the pattern change case, and it equals -regex when both are lower-cased and the pattern has no range spanning only one case>>
//@ harness e_regextype_scope kind=enum props=C17 bound=<<syntaxes emacs, posix-basic, posix-extended, grep x patterns a+, a\+, a{2}, a\{2\}, a|b, a\|b, (a), \(a\) x paths aa, a+, a{2}, a|b, a, b, (a) x -regextype placed before the -regex directly, inside an earlier parenthesis group, inside the same group, after another -regextype, or before an earlier -regex that already used it>> label=<<-regex uses the syntax of the nearest preceding -regextype on the command line, wherever parentheses are>>
//@ harness e_regex_whole_path kind=enum props=C17 bound=<<literal patterns and paths of 1..=3 symbols over {a, b, /, e-acute, blank, #} in each of the four syntaxes; -regex and -iregex (paths also with A)>> label=<<a pattern without metacharacters matches exactly the path equal to it (ignoring letter case for -iregex): never a prefix, never a substring, multi-byte characters included>>
//@ harness e_regex_multibyte kind=enum props=C17 bound=<<patterns ., .., e-acute followed by *, [^a], [e-acute], .x, x., e-acute (each over a path of one to three characters drawn from e-acute, E-acute, a, x, the euro sign) in emacs and posix-extended syntax; -regex and -iregex>> label=<<the unit of a pattern is a character of the path as printed, not a byte: . and a bracket expression consume one whole multi-byte character, a repeat applies to the whole character, and -iregex folds the case of letters outside ASCII too>>
#[cfg(verif_replay)]
mod verif_enum_matchers {
    use super::*;
    use crate::find::tests::FakeDependencies;
//@SHIM@
    fn numeric_body() {
        let syms = ["+", "-", "0", "1", "9", "x"];
        let big = pick(3);
        let s: String = if big == 0 {
            let n = pick(5);
            (0..n).map(|_| syms[pick(syms.len())]).collect()
        } else {
            format!("{}{}", ["", "+", "-"][pick(3)], if big == 1 { "18446744073709551615" } else { "18446744073709551616" })
        };
        // the statement's reading of the operand
        let (sign, digits) = match s.chars().next() { Some('+') => ('+', &s[1..]), Some('-') => ('-', &s[1..]), _ => (' ', &s[..]) };
        let want: Option<(char, u64)> = if !digits.is_empty() && digits.chars().all(|c| c.is_ascii_digit()) { digits.parse::<u64>().ok().map(|v| (sign, v)) } else { None };
        let got = match convert_arg_to_comparable_value("-links", &s) {
            Ok(ComparableValue::MoreThan(v)) => Some(('+', v)),
            Ok(ComparableValue::LessThan(v)) => Some(('-', v)),
            Ok(ComparableValue::EqualTo(v)) => Some((' ', v)),
            Err(_) => None,
        };
        if got != want { eprintln!("  input operand {s:?}: read as {got:?}, expected {want:?}  ('+' greater, '-' less, ' ' equal)"); }
        assert!(got == want, "numeric operand");
    }
    #[test] fn e_numeric_operand() { kani::explore(numeric_body) }

    fn size_body() {
        let sizes = [0u64, 1, 2, 511, 512, 513, 1024, 1025, 1 << 20, (1 << 20) + 1];
        let ns = [0u64, 1, 2, 3, 1 << 34, 1 << 44, 1 << 54, 1 << 55, 1 << 63, u64::MAX];
        let units = [("c", 1u128), ("w", 2), ("b", 512), ("", 512), ("k", 1 << 10), ("M", 1 << 20), ("G", 1 << 30)];
        let (size, n, (u, ub), form) = (sizes[pick(sizes.len())], ns[pick(ns.len())], units[pick(units.len())], pick(3));
        let d = std::env::temp_dir().join(format!("verif-enum-size-{}", std::process::id()));
        std::fs::create_dir_all(&d).unwrap();
        let f = d.join("f");
        std::fs::File::create(&f).unwrap().set_len(size).unwrap();
        let operand = format!("{}{n}{u}", ["", "+", "-"][form]);
        let got = eval(&["-size", &operand, "-a", "-true"], f.to_str().unwrap());
        let measured: u128 = (size as u128 + ub - 1) / ub;
        let want = match form { 0 => measured == n as u128, 1 => measured > n as u128, _ => measured < n as u128 };
        let _ = std::fs::remove_dir_all(&d);
        if got != Some(want) { eprintln!("  input file of {size} bytes, -size {operand}: {got:?}, expected {want} (measured {measured} units)"); }
        assert!(got == Some(want), "-size rounding / comparison");
    }
    #[test] fn e_size() { kani::explore(size_body) }

    fn size_kinds_body() {
        let d = std::env::temp_dir().join(format!("verif-enum-sizek-{}", std::process::id()));
        let _ = std::fs::remove_dir_all(&d);
        std::fs::create_dir_all(d.join("dir")).unwrap();
        std::fs::write(d.join("empty"), "").unwrap();
        let c = std::ffi::CString::new(d.join("fifo").to_str().unwrap()).unwrap();
        assert!(unsafe { uucore::libc::mkfifo(c.as_ptr(), 0o600) } == 0);
        let path = d.join(["dir", "fifo", "empty"][pick(3)]);
        let (n, (u, ub), form) = ([0u64, 1, 8][pick(3)], [("c", 1u128), ("b", 512), ("k", 1024)][pick(3)], pick(3));
        let size = std::fs::symlink_metadata(&path).unwrap().len() as u128;
        let measured = (size + ub - 1) / ub;
        let want = match form { 0 => measured == n as u128, 1 => measured > n as u128, _ => measured < n as u128 };
        let operand = format!("{}{n}{u}", ["", "+", "-"][form]);
        let got = eval(&["-size", &operand, "-a", "-true"], path.to_str().unwrap());
        let _ = std::fs::remove_dir_all(&d);
        if got != Some(want) { eprintln!("  input {} (st_size {size}), -size {operand}: {got:?}, expected {want}", path.file_name().unwrap().to_string_lossy()); }
        assert!(got == Some(want), "-size on a non-regular entry");
    }
    #[test] fn e_size_kinds() { kani::explore(size_kinds_body) }

    fn ids_body() {
        use std::os::unix::fs::MetadataExt;
        let d = std::env::temp_dir().join(format!("verif-enum-ids-{}", std::process::id()));
        let _ = std::fs::remove_dir_all(&d);
        std::fs::create_dir_all(&d).unwrap();
        let f = d.join("f");
        std::fs::write(&f, "").unwrap();
        if pick(2) == 1 { let _ = std::os::unix::fs::chown(&f, Some(1234), Some(4321)); } // only root can; the ids are read back below
        let md = std::fs::metadata(&f).unwrap();
        let ns = [0u64, 1, 1233, 1234, 1235, 4321, (1 << 32) - 1, 1 << 32, (1 << 32) + 1234, (1 << 32) + 4321, 1 << 63, u64::MAX];
        let (n, form, gid) = (ns[pick(ns.len())], pick(3), pick(2) == 1);
        let id = if gid { md.gid() } else { md.uid() } as u128;
        let want = match form { 0 => id == n as u128, 1 => id > n as u128, _ => id < n as u128 };
        let operand = format!("{}{n}", ["", "+", "-"][form]);
        let got = eval(&[if gid { "-gid" } else { "-uid" }, &operand, "-a", "-true"], f.to_str().unwrap());
        let _ = std::fs::remove_dir_all(&d);
        if got != Some(want) { eprintln!("  input file with {} {id}: {} {operand}: {got:?}, expected {want}", if gid { "gid" } else { "uid" }, if gid { "-gid" } else { "-uid" }); }
        assert!(got == Some(want), "-uid/-gid numeric comparison");
    }
    #[test] fn e_ids() { kani::explore(ids_body) }

    fn regex_language_body() {
        // (name, group open, group close are not needed: no groups) interval braces and the spelling of + and ? per syntax
        let syntaxes = [("emacs", "\\{", "\\}", "+", "?"), ("posix-basic", "\\{", "\\}", "\\{1,\\}", "\\{0,1\\}"), ("posix-extended", "{", "}", "+", "?"), ("grep", "\\{", "\\}", "\\+", "\\?")];
        let (sname, lb, rb, plus, quest) = syntaxes[pick(4)];
        let nitems = 1 + pick(3);
        let (mut pat, mut oracle) = (String::from("d/"), String::from("^(?:d/"));
        for _ in 0..nitems {
            let atom = ["a", "b", "."][pick(3)];
            pat.push_str(atom); oracle.push_str(atom);
            match pick(6) {
                0 => {}
                1 => { pat.push('*'); oracle.push('*'); }
                2 => { pat.push_str(plus); oracle.push('+'); }
                3 => { pat.push_str(quest); oracle.push('?'); }
                4 => { pat.push_str(&format!("{lb}0,2{rb}")); oracle.push_str("{0,2}"); }
                _ => { pat.push_str(&format!("{lb}1,2{rb}")); oracle.push_str("{1,2}"); }
            }
        }
        oracle.push_str(")$");
        let re = ::regex::Regex::new(&oracle).unwrap();
        let mut paths = vec![String::from("d/")];
        let mut last = paths.clone();
        for _ in 0..3 { let mut nx = Vec::new(); for p in &last { for c in ["a", "b"] { nx.push(format!("{p}{c}")); } } paths.extend(nx.iter().cloned()); last = nx; }
        for path in &paths {
            let got = eval(&["-regextype", sname, "-regex", &pat, "-a", "-true"], path);
            let want = re.is_match(path);
            if got != Some(want) { eprintln!("  input -regextype {sname} -regex {pat:?} on {path:?}: {got:?}, expected {want} (oracle {oracle:?})"); }
            assert!(got == Some(want), "-regex differs from language membership of the whole path");
        }
    }
    #[test] fn e_regex_language() { kani::explore(regex_language_body) }

    fn perm_operands_body() {
        let bad = ["", "-", "/", ",", "u+r,", ",u+r", "u+r,,g+r", "u+q", "8", "77777"];
        let good = ["u+r", "644", "-u+r,g+w", "/222", "=", "a="];
        let k = pick(bad.len() + good.len());
        let (op, want_ok) = if k < bad.len() { (bad[k], false) } else { (good[k - bad.len()], true) };
        let mut config = Config::default();
        let got_ok = build_top_level_matcher(&["-perm", op], &mut config).is_ok();
        if got_ok != want_ok { eprintln!("  input -perm {op:?}: {}, expected {}", if got_ok { "accepted" } else { "rejected" }, if want_ok { "accepted" } else { "rejected" }); }
        assert!(got_ok == want_ok, "-perm operand validation");
    }
    #[test] fn e_perm_operands() { kani::explore(perm_operands_body) }

    fn samefile_body() {
        use std::os::unix::fs::{symlink, MetadataExt};
        let d = std::env::temp_dir().join(format!("verif-enum-same-{}", std::process::id()));
        let _ = std::fs::remove_dir_all(&d);
        std::fs::create_dir_all(&d).unwrap();
        std::fs::write(d.join("file"), "x").unwrap();
        std::fs::write(d.join("other"), "y").unwrap();
        std::fs::hard_link(d.join("file"), d.join("hard")).unwrap();
        symlink("file", d.join("link-f")).unwrap();
        symlink("missing", d.join("link-missing")).unwrap();
        symlink("file/x", d.join("link-notdir")).unwrap();
        let names = ["file", "other", "hard", "link-f", "link-missing", "link-notdir"];
        let (op, en, follow) = (names[pick(6)], names[pick(6)], pick(2) == 1);
        let rec = |n: &str| { let p = d.join(n); if follow { std::fs::metadata(&p).or_else(|_| std::fs::symlink_metadata(&p)) } else { std::fs::symlink_metadata(&p) }.map(|m| (m.dev(), m.ino())).unwrap() };
        let want = rec(op) == rec(en);
        let (ops, ens) = (d.join(op), d.join(en));
        let args: Vec<&str> = vec!["find", if follow { "-L" } else { "-P" }, ens.to_str().unwrap(), "-maxdepth", "0", "-samefile", ops.to_str().unwrap(), "-print0"];
        let deps = FakeDependencies::new();
        let rc = crate::find::find_main(&args, &deps);
        let got = !deps.output.borrow().get_ref().is_empty();
        let _ = std::fs::remove_dir_all(&d);
        if got != want || rc != 0 { eprintln!("  input find {} {en} -samefile {op}: selected {got} (exit {rc}), expected {want}", if follow { "-L" } else { "-P" }); }
        assert!(rc == 0, "-samefile failed on a link it should fall back to lstat() for");
        assert!(got == want, "-samefile");
    }
    #[test] fn e_samefile() { kani::explore(samefile_body) }

    fn inum_below_root_body() {
        use std::os::unix::fs::MetadataExt;
        let mut bad = Vec::new();
        for e in std::fs::read_dir("/").unwrap() {
            let p = e.unwrap().path();
            let md = match std::fs::symlink_metadata(&p) { Ok(m) => m, Err(_) => continue };
            let ino = md.ino().to_string();
            let name = p.file_name().unwrap().to_string_lossy().into_owned();
            let deps = FakeDependencies::new();
            let _ = crate::find::find_main(&["find", "/", "-mindepth", "1", "-maxdepth", "1", "-name", &name, "-inum", &ino, "-print0"], &deps);
            if deps.output.borrow().get_ref().is_empty() { bad.push(format!("{} (inode {ino}) is not selected by -inum {ino}", p.display())); }
        }
        if !bad.is_empty() { eprintln!("  input {}", bad.join("\n  input ")); }
        assert!(bad.is_empty(), "-inum does not read the inode number of the status record");
    }
    #[test] fn e_inum_below_root() { kani::explore(inum_below_root_body) }

    fn type_tests_body() {
        use std::os::unix::fs::{symlink, PermissionsExt};
        let d = std::env::temp_dir().join(format!("verif-enum-type-{}", std::process::id()));
        let _ = std::fs::remove_dir_all(&d);
        std::fs::create_dir_all(d.join("t/dir")).unwrap();
        std::fs::write(d.join("t/file"), "x").unwrap();
        std::fs::set_permissions(d.join("t/file"), std::fs::Permissions::from_mode(0o600)).unwrap();
        std::fs::set_permissions(d.join("t/dir"), std::fs::Permissions::from_mode(0o755)).unwrap();
        symlink("file", d.join("t/lfile")).unwrap();
        symlink("dir", d.join("t/ldir")).unwrap();
        symlink("nowhere", d.join("t/dang")).unwrap();
        let names = ["file", "dir", "lfile", "ldir", "dang"];
        let which = pick(5);
        let as_root = pick(2) == 1; // the entry is itself the starting point (depth 0) or is found below t (depth 1)
        let mode = pick(3);
        let xtype = pick(2) == 1;
        let letter = ["f", "d", "l"][pick(3)];
        let perm_pos = pick(3); // 0: no -perm, 1: after the type test, 2: before it
        let path = d.join("t").join(names[which]);
        let depth = if as_root { 0 } else { 1 };
        let follows = mode == 2 || (mode == 1 && depth == 0);
        let rec = |follow: bool| if follow { std::fs::metadata(&path).or_else(|_| std::fs::symlink_metadata(&path)).unwrap() } else { std::fs::symlink_metadata(&path).unwrap() };
        let kind = |m: &std::fs::Metadata| if m.file_type().is_symlink() { "l" } else if m.is_dir() { "d" } else { "f" };
        let type_ok = kind(&rec(if xtype { !follows } else { follows })) == letter;
        let perm_ok = rec(follows).permissions().mode() & 0o7777 == 0o600;
        let want = type_ok && (perm_pos == 0 || perm_ok);
        let start = if as_root { path.clone() } else { d.join("t") };
        let mut args: Vec<&str> = vec!["find", ["-P", "-H", "-L"][mode], start.to_str().unwrap(), "-maxdepth", "1"];
        if perm_pos == 2 { args.extend_from_slice(&["-perm", "600"]); }
        args.extend_from_slice(&[if xtype { "-xtype" } else { "-type" }, letter]);
        if perm_pos == 1 { args.extend_from_slice(&["-perm", "600"]); }
        args.push("-print0");
        let deps = FakeDependencies::new();
        let _rc = crate::find::find_main(&args, &deps);
        let out = deps.output.borrow().get_ref().clone();
        let got = out.split(|&b| b == 0).any(|p| p == path.to_str().unwrap().as_bytes());
        let _ = std::fs::remove_dir_all(&d);
        if got != want { eprintln!("  input find {:?} on {} (depth {depth}): selected {got}, expected {want}", args[1..].iter().map(|a| a.replace(d.to_str().unwrap(), "D")).collect::<Vec<_>>(), names[which]); }
        assert!(got == want, "type / xtype / perm on the record the follow mode selects");
    }
    #[test] fn e_type_tests() { kani::explore(type_tests_body) }

    fn iregex_case_body() {
        let pats = ["abc", "a.c", "[a-c]+", "[0-^]+", "[_-~]+", "[^a]b"];
        let paths = ["abc", "ABC", "aBc", "123", "a-c", "xb"];
        let (pat, path) = (pats[pick(6)], paths[pick(6)]);
        let up_pat = pick(2) == 1;
        // letters outside brackets only are upper-cased in the pattern variant: ranges keep their end points
        let p2: String = if up_pat { let mut inb = false; pat.chars().map(|c| { if c == '[' { inb = true; } if c == ']' { inb = false; } if inb { c } else { c.to_ascii_uppercase() } }).collect() } else { pat.to_string() };
        let base = eval(&["-iregex", pat, "-a", "-true"], &path.to_lowercase());
        let got = eval(&["-iregex", &p2, "-a", "-true"], path);
        if got != base { eprintln!("  input -iregex {p2:?} on {path:?}: {got:?}; -iregex {pat:?} on {:?}: {base:?}", path.to_lowercase()); }
        assert!(got == base, "-iregex verdict changes with the letter case of the path or of the pattern");
    }
    #[test] fn e_iregex_case() { kani::explore(iregex_case_body) }

    fn eval(args: &[&str], path: &str) -> Option<bool> {
        let mut config = Config::default();
        let m = build_top_level_matcher(args, &mut config).ok()?;
        let deps = FakeDependencies::new();
        Some(m.matches(&WalkEntry::new(path, 0, Follow::Never), &mut deps.new_matcher_io()))
    }
    fn regextype_body() {
        let types = [("emacs", regex::RegexType::Emacs), ("posix-basic", regex::RegexType::PosixBasic), ("posix-extended", regex::RegexType::PosixExtended), ("grep", regex::RegexType::Grep)];
        let (tname, ty) = types[pick(4)];
        let other = types[pick(4)].0;
        let pat = ["a+", "a\\+", "a{2}", "a\\{2\\}", "a|b", "a\\|b", "(a)", "\\(a\\)"][pick(8)];
        let path = ["aa", "a+", "a{2}", "a|b", "a", "b", "(a)"][pick(7)];
        let direct = match regex::RegexMatcher::new(ty, pat, false) {
            Ok(m) => { let deps = FakeDependencies::new(); Some(m.matches(&WalkEntry::new(path, 0, Follow::Never), &mut deps.new_matcher_io())) }
            Err(_) => None,
        };
        // -fprint-free forms: the final -false keeps the default -print away
        let forms: [Vec<&str>; 5] = [
            vec!["-regextype", tname, "-regex", "zzz", "-o", "-regex", pat],   // the syntax stays in force for every later -regex
            vec!["-regextype", tname, "-regex", pat],
            vec!["(", "-regextype", tname, ")", "-regex", pat],
            vec!["(", "-regextype", tname, "-regex", pat, ")"],
            vec!["-regextype", other, "(", "-true", "-regextype", tname, ")", "-regex", pat],
        ];
        let form = &forms[pick(5)];
        let mut args = form.clone();
        args.extend_from_slice(&["-a", "-true"]);
        let got = eval(&args, path);
        if got != direct { eprintln!("  input find {:?} on path {path:?}: {got:?}; the pattern compiled directly as {tname}: {direct:?}", form); }
        assert!(got == direct, "-regex is not compiled in the syntax of the nearest preceding -regextype");
    }
    #[test] fn e_regextype_scope() { kani::explore(regextype_body) }

    fn whole_path_body() {
        let syms = ["a", "b", "/", "\u{e9}", " ", "#"];
        let icase = pick(2) == 1;
        let rtype = ["emacs", "posix-basic", "posix-extended", "grep"][pick(4)];
        let np = 1 + pick(3);
        let pat: String = (0..np).map(|_| syms[pick(syms.len())]).collect();
        let psyms: &[&str] = if icase { &["a", "A", "b", "/", "\u{e9}", " ", "#"] } else { &syms };
        let ns = 1 + pick(3);
        let path: String = (0..ns).map(|_| psyms[pick(psyms.len())]).collect();
        let want = if icase { path.to_lowercase() == pat.to_lowercase() } else { path == pat };
        let got = eval(&["-regextype", rtype, if icase { "-iregex" } else { "-regex" }, &pat, "-a", "-true"], &path);
        if got != Some(want) { eprintln!("  input -regextype {rtype} {} {pat:?} on path {path:?}: {got:?}, expected {want}", if icase { "-iregex" } else { "-regex" }); }
        assert!(got == Some(want), "a literal pattern must match exactly the whole path");
    }
    #[test] fn e_regex_whole_path() { kani::explore(whole_path_body) }
    #[test] fn e_regex_nonutf8() { kani::explore(nonutf8_path_body) }
    /// the path "as -print would print it" of an entry whose name is not valid UTF-8 is still a string: .* must accept it
    fn nonutf8_path_body() {
        use std::os::unix::ffi::OsStrExt;
        let path = std::path::PathBuf::from(std::ffi::OsStr::from_bytes(b"d/caf\xe9"));
        let mut config = Config::default();
        let m = build_top_level_matcher(&["-regex", ".*", "-a", "-true"], &mut config).unwrap();
        let deps = FakeDependencies::new();
        let got = m.matches(&WalkEntry::new(path, 1, Follow::Never), &mut deps.new_matcher_io());
        if !got { eprintln!("  input -regex '.*' on the path d/caf\\xe9 (not valid UTF-8): false"); }
        assert!(got, "-regex '.*' must accept every path");
    }

    fn regex_multibyte_body() {
        // (pattern, the same language as a predicate on the characters of the path)
        let pats: [(&str, fn(&[char]) -> bool); 8] = [
            (".", |c| c.len() == 1),
            ("..", |c| c.len() == 2),
            ("\u{e9}*", |c| c.iter().all(|x| *x == '\u{e9}')),
            ("[^a]", |c| c.len() == 1 && c[0] != 'a'),
            ("[\u{e9}]", |c| c.len() == 1 && c[0] == '\u{e9}'),
            (".x", |c| c.len() == 2 && c[1] == 'x'),
            ("x.", |c| c.len() == 2 && c[0] == 'x'),
            ("\u{e9}", |c| c.len() == 1 && c[0] == '\u{e9}'),
        ];
        let (pat, lang) = pats[pick(8)];
        let alpha = ['\u{e9}', '\u{c9}', 'a', 'x', '\u{20ac}'];
        let n = 1 + pick(3);
        let path: String = (0..n).map(|_| alpha[pick(5)]).collect();
        let ty = ["emacs", "posix-extended"][pick(2)];
        let caseless = pick(2) == 1;
        let got = eval(&["-regextype", ty, if caseless { "-iregex" } else { "-regex" }, pat, "-a", "-true"], &path);
        let chars: Vec<char> = if caseless { path.to_lowercase().chars().collect() } else { path.chars().collect() };
        let want = Some(lang(&chars));
        if got != want { eprintln!("  input -regextype {ty} {} {pat:?} on path {path:?}: {got:?}, expected {want:?}", if caseless { "-iregex" } else { "-regex" }); }
        assert!(got == want, "the pattern is not applied to the characters of the path");
    }
    #[test] fn e_regex_multibyte() { kani::explore(regex_multibyte_body) }
}
