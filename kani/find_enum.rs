//@ kani find_enum
//@ append src/find/mod.rs
//@ module verif_enum_find
//@ harness e_operand_scan kind=enum props=C18 bound=<<0..=3 leading operands over {x, ./y, -, (old), !keep, a b} followed by one of: nothing, -print, ! -name z, ( -true ), -name q>> label=<<the starting points are the leading operands up to the first argument that begins with '-' (other than '-' itself) or is exactly '!', '(', ')' or ','; no operand means '.'>>
//@ harness e_roots kind=enum props=C18,C02,C07 bound=<<1..=3 starting points over an existing directory spelled D/a, D/./a, D/a/, D/a//, D/b, a file D/b/f and a missing D/missing, real tree x -P/-H/-L x with and without -sorted x -mindepth absent, 1, or 2 with -maxdepth 1 (an empty range: nothing evaluated, missing starting points still diagnosed) x with or without -name f -print0 -quit>> label=<<starting points are walked in the order given, each path reported begins with its starting point as spelled, and a starting point that cannot be examined gives a non-zero exit status without stopping the others>>
//@ harness e_walk_h_link_depth kind=enum props=C02 bound=<<the same tree; -H with the link to a directory as starting point and -depth; mindepth and maxdepth each absent or 0..=3>> label=<<the multiset of entries evaluated equals the independent walk for `find -H LINK-TO-DIRECTORY ... -depth`>>
//@ harness e_walk kind=enum props=C02 bound=<<(all combinations except -H + link-to-directory starting point + -depth, which is e_walk_h_link_depth) a real tree with files, directories two levels deep, a link to a file, a link to a directory, a dangling link, a link to an ancestor directory (a cycle under -L) with a later sibling; starting point the tree, the link to a directory or the dangling link; -P/-H/-L; mindepth and maxdepth each absent or 0..=3; -depth on/off>> label=<<the multiset of entries evaluated equals an independent lstat/stat walk: every entry with mindepth <= depth <= maxdepth exactly once; links descended only where the follow mode says so; a dangling link visited as a link; a link closing a directory cycle neither evaluated nor followed, its siblings still visited>>
//@ harness e_prune kind=enum props=C03 bound=<<a real tree r/{a/{x, skip/{h, inner/}}, skip/{k}, m -> ../real (a link to a directory holding files), z}; the name to prune is skip, m, a or z; -P/-L; -maxdepth absent, 2 or 3; default order, -depth, or the word -delete only as an operand of -name>> label=<<find R ( -name X -prune -o -print ): in the default order exactly the descendants of the directories named X (as the follow mode sees them) are left out and everything else is visited in pre-order; under -depth nothing is cut; a word that merely looks like -delete among the operands changes nothing>>
//@ harness e_sorted kind=enum props=C03 bound=<<directories whose entries are 2..=3 names over {a, B, a-b, a.b, e-acute, the non-UTF-8 byte 0x80, 0xff} with one subdirectory level; -sorted with and without -depth>> label=<<with -sorted the visit sequence is the pre-order (post-order under -depth) walk with siblings in byte-wise name order>>
//@ harness e_cmdline kind=enum props=C11 thorough_bound=<<every expression of 0..=4 tokens over 27 tokens on a real two-entry tree>> bound=<<every expression of 0..=3 tokens over 27 tokens (primaries with and without operands, operators, parentheses, near-miss operands) on a real two-entry tree>> label=<<find returns an ordinary exit status for every argument vector (no panic), and when the command line is rejected nothing is printed>>
//@ harness e_printf_time_spec kind=enum props=C11,C16 bound=<<-printf with %T, %A, %C followed by each printable ASCII character>> label=<<a time directive is either rejected before anything is printed, or renders for every entry: none is accepted and then fails while printing>>
//@ harness e_newer_t_operand kind=enum props=C11 bound=<<-newermt / -newerat with a literal time built from {no month-day, jan 01, Dec 31, feb 30, xyz 01, a day in Arabic-Indic digits, jan 1, j\u00e9n 01} x {no year, 2025, 1999, a year in Arabic-Indic digits, 0000, 9999, 20a5, 12345, a year in full-width digits} x {no time, 00:00:01, 23:59:59, 24:00:00, 12:60:00, an hour in Arabic-Indic digits, 1:2:3} (1008 operands) on a tree with one entry from 1971 and one from 2170>> label=<<find never panics on a -newerXt operand; a time that does not exist is rejected before anything is printed with a non-zero status; a well-formed time between 1999 and the end of this year is accepted and selects the 2170 entry only; every other operand is either rejected cleanly or taken as one instant>>
//@ harness e_follow_flags kind=enum props=C13,C02 bound=<<every sequence of 0..=3 of the leading options -P, -H, -L (also interleaved with -O1 and -D x) x an expression with or without -follow>> label=<<the follow mode of a run is that of the last of -P/-H/-L on the command line (none: -P), and -follow in the expression makes it 'always' whatever came before>>
#[cfg(verif_replay)]
mod verif_enum_find {
    use super::*;
    use crate::find::tests::FakeDependencies;
    use std::os::unix::ffi::OsStrExt;
    use std::os::unix::fs::symlink;
    use std::path::{Path, PathBuf};
//@SHIM@
    fn scratch(tag: &str) -> PathBuf {
        let d = std::env::temp_dir().join(format!("verif-enum-find-{}-{}", tag, std::process::id()));
        let _ = std::fs::remove_dir_all(&d);
        std::fs::create_dir_all(&d).unwrap();
        d
    }
    fn run(args: &[&str]) -> (i32, Vec<u8>) {
        let deps = FakeDependencies::new();
        let rc = find_main(args, &deps);
        let out = deps.output.borrow().get_ref().clone();
        (rc, out)
    }

    fn operand_body() {
        let ops = ["x", "./y", "-", "(old)", "!keep", "a b"];
        let n = pick(4);
        let operands: Vec<&str> = (0..n).map(|_| ops[pick(ops.len())]).collect();
        let tails: [&[&str]; 5] = [&[], &["-print"], &["!", "-name", "z"], &["(", "-true", ")"], &["-name", "q"]];
        let tail = tails[pick(5)];
        let mut args = operands.clone();
        args.extend_from_slice(tail);
        let want: Vec<String> = if operands.is_empty() { vec![".".to_string()] } else { operands.iter().map(|s| s.to_string()).collect() };
        let got = parse_args(&args).map(|p| p.paths).map_err(|e| e.to_string());
        if got.as_ref().ok() != Some(&want) { eprintln!("  input find {:?}: starting points {:?}, expected {:?}", args, got, want); }
        assert!(got.as_ref().ok() == Some(&want), "starting points");
    }
    #[test] fn e_operand_scan() { kani::explore(operand_body) }

    fn roots_body() {
        let d = scratch("roots");
        std::fs::create_dir_all(d.join("a")).unwrap();
        std::fs::write(d.join("a/f"), "").unwrap();
        std::fs::create_dir_all(d.join("b")).unwrap();
        std::fs::write(d.join("b/f"), "").unwrap();
        let ds = d.to_str().unwrap().to_string();
        // (spelling, Some(child name) for a directory with one child / None for a file, exists)
        let spell: [(String, Option<&str>, bool); 7] = [
            (format!("{ds}/a"), Some("f"), true), (format!("{ds}/./a"), Some("f"), true), (format!("{ds}/a/"), Some("f"), true),
            (format!("{ds}/a//"), Some("f"), true), (format!("{ds}/b"), Some("f"), true), (format!("{ds}/b/f"), None, true),
            (format!("{ds}/missing"), None, false)];
        let n = 1 + pick(3);
        let chosen: Vec<usize> = (0..n).map(|_| pick(7)).collect();
        let mode = ["-P", "-H", "-L"][pick(3)];
        let quit = pick(2) == 1; // ... -name f -print0 -quit: stop at the first file named f
        let mind_k = pick(3); // 1: -mindepth 1 (starting points not evaluated, but still examined); 2: -mindepth 2 -maxdepth 1 (nothing is in range)
        let mind = mind_k >= 1;
        let mut args: Vec<&str> = vec!["find", mode];
        for &c in &chosen { args.push(&spell[c].0); }
        // -sorted orders directory contents only (every directory here has one child): the starting points keep the order given
        if pick(2) == 1 { args.push("-sorted"); }
        if mind_k == 1 { args.extend_from_slice(&["-mindepth", "1"]); }
        if mind_k == 2 { args.extend_from_slice(&["-mindepth", "2", "-maxdepth", "1"]); }
        if quit { args.extend_from_slice(&["-name", "f", "-print0", "-quit"]); } else { args.push("-print0"); }
        let (rc, out) = run(&args);
        let mut want: Vec<u8> = Vec::new();
        let mut want_rc = 0;
        for &c in &chosen {
            let (s, child, exists) = &spell[c];
            if !exists { want_rc = 1; continue; }
            if !quit && !mind { want.extend_from_slice(s.as_bytes()); want.push(0); }
            if mind_k == 2 { continue; }
            if let Some(ch) = child {
                want.extend_from_slice(s.as_bytes());
                if !s.ends_with('/') { want.push(b'/'); }
                want.extend_from_slice(ch.as_bytes()); want.push(0);
                if quit { break; }
            } else if quit && !mind { want.extend_from_slice(s.as_bytes()); want.push(0); break; }
        }
        let _ = std::fs::remove_dir_all(&d);
        let show = |b: &[u8]| String::from_utf8_lossy(b).replace('\0', "\u{2400}").replace(&ds, "D");
        if out != want || (rc != 0) != (want_rc != 0) { eprintln!("  input find {mode} {:?}{}{}\n  input printed  {} (exit {rc})\n  input expected {} (exit {})", chosen.iter().map(|&c| spell[c].0.replace(&ds, "D")).collect::<Vec<_>>(), if mind { " -mindepth 1" } else { "" }, if quit { " -name f -print0 -quit" } else { " -print0" }, show(&out), show(&want), if want_rc != 0 { "non-zero" } else { "0" }); }
        assert!(out == want, "paths printed for the starting points, in order, as spelled");
        assert!((rc != 0) == (want_rc != 0), "exit status: non-zero iff a starting point could not be examined, also when -quit ends the run");
    }
    #[test] fn e_roots() { kani::explore(roots_body) }

    /// independent walk: lstat()/stat() and read_dir() only
    fn ref_walk(path: &Path, depth: usize, mode: usize, min: usize, max: usize, out: &mut Vec<Vec<u8>>, loops: &mut usize, stack: &mut Vec<(u64, u64)>) {
        use std::os::unix::fs::MetadataExt;
        let follows = mode == 2 || (mode == 1 && depth == 0);
        let lmd = match std::fs::symlink_metadata(path) { Ok(m) => m, Err(_) => return };
        let md = if follows { std::fs::metadata(path).unwrap_or(lmd.clone()) } else { lmd.clone() };
        // a followed link to a directory that is already on the path from the starting point closes a cycle:
        // diagnosed, neither evaluated nor descended
        if follows && lmd.file_type().is_symlink() && md.is_dir() && stack.contains(&(md.dev(), md.ino())) { *loops += 1; return; }
        if depth >= min && depth <= max { out.push(path.as_os_str().as_bytes().to_vec()); }
        if md.is_dir() && depth < max {
            stack.push((md.dev(), md.ino()));
            for e in std::fs::read_dir(path).unwrap() { ref_walk(&e.unwrap().path(), depth + 1, mode, min, max, out, loops, stack); }
            stack.pop();
        }
    }
    fn walk_body() { walk_case(false) }
    fn walk_h_body() { walk_case(true) }
    fn walk_case(h_link_depth: bool) {
        let d = scratch(if h_link_depth { "walkh" } else { "walk" });
        let t = d.join("t");
        std::fs::create_dir_all(t.join("d/e")).unwrap();
        std::fs::write(t.join("f"), "").unwrap();
        std::fs::write(t.join("d/g"), "").unwrap();
        std::fs::write(t.join("d/e/h"), "").unwrap();
        symlink("f", t.join("lf")).unwrap();
        symlink("d", t.join("ld")).unwrap();
        symlink("missing", t.join("dang")).unwrap();
        symlink("..", t.join("d/up")).unwrap();    // closes a directory cycle when followed
        std::fs::write(t.join("d/z"), "").unwrap(); // a sibling that sorts after the cycle link
        let which_root = if h_link_depth { 1 } else { pick(3) };
        let root = [t.clone(), t.join("ld"), t.join("dang")][which_root].clone();
        let mode = if h_link_depth { 1 } else { pick(3) };
        let lim = [None, Some(0usize), Some(1), Some(2), Some(3)];
        let (min, max) = (lim[pick(5)], lim[pick(5)]);
        let depth_first = if h_link_depth { true } else { pick(2) == 1 };
        if !h_link_depth && which_root == 1 && mode == 1 && depth_first { let _ = std::fs::remove_dir_all(&d); return; }
        let (mins, maxs) = (min.map(|v| v.to_string()), max.map(|v| v.to_string()));
        let mut args: Vec<&str> = vec!["find", ["-P", "-H", "-L"][mode], root.to_str().unwrap()];
        if let Some(m) = &mins { args.push("-mindepth"); args.push(m); }
        if let Some(m) = &maxs { args.push("-maxdepth"); args.push(m); }
        if depth_first { args.push("-depth"); }
        args.push("-print0");
        let (rc, out) = run(&args);
        let mut got: Vec<Vec<u8>> = out.split(|&b| b == 0).filter(|s| !s.is_empty()).map(|s| s.to_vec()).collect();
        let mut want = Vec::new();
        let mut loops = 0;
        ref_walk(&root, 0, mode, min.unwrap_or(0), max.unwrap_or(usize::MAX), &mut want, &mut loops, &mut Vec::new());
        got.sort(); want.sort();
        let _ = std::fs::remove_dir_all(&d);
        let ds = d.to_str().unwrap().to_string();
        let show = |v: &Vec<Vec<u8>>| v.iter().map(|b| String::from_utf8_lossy(b).replace(&ds, "D")).collect::<Vec<_>>();
        if got != want || (rc != 0 && loops == 0) { eprintln!("  input find {:?}\n  input evaluated {:?} (exit {rc})\n  input expected  {:?} ({loops} cycle link(s) reached)", args[1..].iter().map(|a| a.replace(&ds, "D")).collect::<Vec<_>>(), show(&got), show(&want)); }
        assert!(got == want, "entries evaluated differ from the independent walk");
        assert!(rc == 0 || loops > 0, "exit status on a walk where everything can be read and no cycle is met");
    }
    #[test] fn e_walk() { kani::explore(walk_body) }
    #[test] fn e_walk_h_link_depth() { kani::explore(walk_h_body) }

    fn prune_body() {
        let d = scratch("prune");
        let r = d.join("r");
        std::fs::create_dir_all(r.join("a/skip/inner")).unwrap();
        std::fs::create_dir_all(r.join("skip")).unwrap();
        std::fs::create_dir_all(d.join("real/sub")).unwrap();
        for f in ["r/a/x", "r/a/skip/h", "r/skip/k", "r/z", "real/inner", "real/sub/deep"] { std::fs::write(d.join(f), "").unwrap(); }
        symlink("../real", r.join("m")).unwrap();
        let x = ["skip", "m", "a", "z"][pick(4)];
        let follow = pick(2) == 1;
        let maxd = [None, Some(2usize), Some(3)][pick(3)];
        let variant = pick(3); // 0 default order, 1 -depth, 2 the word "-delete" as an operand only
        let rs = r.to_str().unwrap().to_string();
        let maxs = maxd.map(|m| m.to_string());
        let mut args: Vec<&str> = vec!["find", if follow { "-L" } else { "-P" }, &rs, "-sorted"];
        if let Some(m) = &maxs { args.push("-maxdepth"); args.push(m); }
        if variant == 1 { args.push("-depth"); }
        args.extend_from_slice(&["(", "-name", x, "-prune", "-o", "-print", ")"]);
        if variant == 2 { args.extend_from_slice(&["-o", "-name", "-delete"]); }
        let (rc, out) = run(&args);
        let got: Vec<String> = String::from_utf8_lossy(&out).lines().map(|l| l.to_string()).collect();
        // reference: pre-order (post-order under -depth) walk in byte-wise name order
        fn walk(p: &Path, depth: usize, follow: bool, maxd: usize, x: &str, post: bool, out: &mut Vec<String>) {
            let md = if follow { std::fs::metadata(p).or_else(|_| std::fs::symlink_metadata(p)) } else { std::fs::symlink_metadata(p) }.unwrap();
            let named = p.file_name().map(|n| n == x).unwrap_or(false);
            // -name X -prune -o -print: an entry named X is not printed; if it is a directory its subtree is cut (default order only)
            if !post && !named { out.push(p.to_string_lossy().into_owned()); }
            if md.is_dir() && depth < maxd && !(named && !post) {
                let mut kids: Vec<PathBuf> = std::fs::read_dir(p).unwrap().map(|e| e.unwrap().path()).collect();
                kids.sort_by(|a, b| a.file_name().unwrap().as_bytes().cmp(b.file_name().unwrap().as_bytes()));
                for k in kids { walk(&k, depth + 1, follow, maxd, x, post, out); }
            }
            if post && !named { out.push(p.to_string_lossy().into_owned()); }
        }
        let mut want = Vec::new();
        walk(&r, 0, follow, maxd.unwrap_or(usize::MAX), x, variant == 1, &mut want);
        let _ = std::fs::remove_dir_all(&d);
        let ds = d.to_str().unwrap().to_string();
        if got != want || rc != 0 { eprintln!("  input find {:?}\n  input printed  {:?} (exit {rc})\n  input expected {:?}", args[1..].iter().map(|a| a.replace(&ds, "D")).collect::<Vec<_>>(), got.iter().map(|g| g.replace(&ds, "D")).collect::<Vec<_>>(), want.iter().map(|g| g.replace(&ds, "D")).collect::<Vec<_>>()); }
        assert!(got == want, "-prune must cut exactly the subtrees of the named directories, in the default order only");
        assert!(rc == 0, "exit status");
    }
    #[test] fn e_prune() { kani::explore(prune_body) }

    fn sorted_body() {
        use std::ffi::OsStr;
        let names: [&[u8]; 7] = [b"a", b"B", b"a-b", b"a.b", "\u{e9}".as_bytes(), b"\x80", b"\xff"];
        let d = scratch("sorted");
        let t = d.join("t");
        std::fs::create_dir_all(&t).unwrap();
        let n = 2 + pick(2);
        let mut chosen: Vec<&[u8]> = Vec::new();
        for _ in 0..n { let c = names[pick(7)]; if !chosen.contains(&c) { chosen.push(c); } }
        // the first chosen name is a directory holding two of the names as files
        for (i, c) in chosen.iter().enumerate() {
            let p = t.join(OsStr::from_bytes(c));
            if i == 0 { std::fs::create_dir(&p).unwrap(); for c2 in chosen.iter().take(2) { std::fs::write(p.join(OsStr::from_bytes(c2)), "").unwrap(); } }
            else { std::fs::write(&p, "").unwrap(); }
        }
        let post = pick(2) == 1;
        let deps = FakeDependencies::new();
        // -print0 goes through to_string_lossy; the order is what is compared, so every name is mapped the same way
        let mut args = vec!["find", t.to_str().unwrap(), "-sorted"];
        if post { args.push("-depth"); }
        args.push("-print0");
        let rc = find_main(&args, &deps);
        let out = deps.output.borrow().get_ref().clone();
        let got: Vec<String> = out.split(|&b| b == 0).filter(|s| !s.is_empty()).map(|s| String::from_utf8_lossy(s).into_owned()).collect();
        fn walk(p: &Path, post: bool, out: &mut Vec<String>) {
            if !post { out.push(p.to_string_lossy().into_owned()); }
            if p.is_dir() {
                let mut kids: Vec<PathBuf> = std::fs::read_dir(p).unwrap().map(|e| e.unwrap().path()).collect();
                kids.sort_by(|a, b| a.file_name().unwrap().as_bytes().cmp(b.file_name().unwrap().as_bytes()));
                for k in kids { walk(&k, post, out); }
            }
            if post { out.push(p.to_string_lossy().into_owned()); }
        }
        let mut want = Vec::new();
        walk(&t, post, &mut want);
        let _ = std::fs::remove_dir_all(&d);
        if got != want || rc != 0 { eprintln!("  input names {:?} (first is a directory), -depth {post}\n  input visit order {:?}\n  input expected    {:?}", chosen.iter().map(|c| String::from_utf8_lossy(c).into_owned()).collect::<Vec<_>>(), got, want); }
        assert!(got == want, "-sorted visit sequence is not the byte-wise name order walk");
    }
    #[test] fn e_sorted() { kani::explore(sorted_body) }

    fn cmdline_body() {
        let toks = ["-print", "-name", "x*", "-o", "-a", "!", "(", ")", ",", "-type", "f", "q", "-size", "+1k", "1x", "-perm", "u+q", "-regex", "[", "-printf", "%", "-newer", "-maxdepth", "-1", "[b-a]", "-iname", "\\1\u{20ac}"];
        let n = pick(if deep() { 5 } else { 4 });
        let expr: Vec<&str> = (0..n).map(|_| toks[pick(toks.len())]).collect();
        let d = scratch("cmd");
        std::fs::write(d.join("f"), "").unwrap();
        let mut args = vec!["find", d.to_str().unwrap()];
        args.extend_from_slice(&expr);
        let accepted = parse_args(&args[1..]).is_ok();
        let (rc, out) = run(&args);   // a panic here fails the harness with this expression as the witness
        let _ = std::fs::remove_dir_all(&d);
        if !accepted && (!out.is_empty() || rc == 0) { eprintln!("  input find D {:?}: rejected by the parser, yet exit {rc} and output {:?}", expr, String::from_utf8_lossy(&out)); }
        assert!(accepted || (out.is_empty() && rc != 0), "a rejected command line must print nothing and exit non-zero");
    }
    #[test] fn e_cmdline() { kani::explore(cmdline_body) }

    fn time_spec_body() {
        let kind = ["T", "A", "C"][pick(3)];
        let c = (0x21u8 + pick(0x7f - 0x21) as u8) as char;
        let d = scratch("tspec");
        std::fs::write(d.join("f"), "").unwrap();
        let fmt = format!("<%{kind}{c}>\\0");
        let (rc, out) = run(&["find", d.to_str().unwrap(), "-printf", &fmt]);
        let _ = std::fs::remove_dir_all(&d);
        let text = String::from_utf8_lossy(&out).into_owned();
        let recs: Vec<&str> = text.split('\0').filter(|r| !r.is_empty()).collect();
        let rendered = rc == 0 && recs.len() == 2 && recs.iter().all(|l| l.starts_with('<') && l.ends_with('>'));
        let rejected = out.is_empty() && rc != 0;
        if !(rendered || rejected) { eprintln!("  input -printf {fmt:?}: exit {rc}, output {text:?}"); }
        assert!(rendered || rejected, "a time directive must be rejected up front or render for every entry");
    }
    #[test] fn e_printf_time_spec() { kani::explore(time_spec_body) }

    fn newer_t_body() {
        // the literal-time operand of -newerXt: "<mon> <dd>, <yyyy> <hh:mm:ss>", every part optional; valid parts, dates and times that do not
        // exist, digits outside ASCII (which \d and \w accept), wrong lengths
        let md = ["", "jan 01", "Dec 31", "feb 30", "xyz 01", "jan \u{0660}\u{0661}", "jan 1", "j\u{00e9}n 01"][pick(8)];
        let yr = ["", ", 2025", ", 1999", ", \u{0662}\u{0660}\u{0662}\u{0665}", ", 0000", ", 9999", ", 20a5", ", 12345", ", \u{ff12}\u{ff10}\u{ff12}\u{ff15}"][pick(9)];
        let tm = ["", " 00:00:01", " 23:59:59", " 24:00:00", " 12:60:00", " \u{0661}\u{0662}:00:00", " 1:2:3"][pick(7)];
        let x = ["m", "a"][pick(2)];
        let operand = format!("{md}{yr}{tm}");
        let d = scratch("newert");
        // one entry from 1971, one from 2170 (times before 1970 are left out: NewerTimeMatcher takes their distance from the epoch as positive, which no property speaks about)
        let old = d.join("old");
        let new = d.join("new");
        let f = std::fs::File::create(&old).unwrap();
        let t_old = std::time::UNIX_EPOCH + std::time::Duration::from_secs(366 * 86400);
        f.set_times(std::fs::FileTimes::new().set_accessed(t_old).set_modified(t_old)).unwrap();
        let g = std::fs::File::create(&new).unwrap();
        let t_new = std::time::UNIX_EPOCH + std::time::Duration::from_secs(200 * 366 * 86400);
        g.set_times(std::fs::FileTimes::new().set_accessed(t_new).set_modified(t_new)).unwrap();
        let opt = format!("-newer{x}t");
        let ds = d.to_str().unwrap().to_string();
        let (rc, out) = run(&["find", &ds, "-type", "f", &opt, &operand]);   // a panic here fails the harness with this operand as the witness
        let _ = std::fs::remove_dir_all(&d);
        let text = String::from_utf8_lossy(&out).replace(&ds, "D");
        let rejected = rc != 0 && out.is_empty();
        let valid_md = matches!(md, "" | "jan 01" | "Dec 31");
        let valid_yr = matches!(yr, "" | ", 2025" | ", 1999");
        let valid_tm = matches!(tm, "" | " 00:00:01" | " 23:59:59");
        let impossible = matches!(md, "feb 30" | "xyz 01") || matches!(tm, " 24:00:00" | " 12:60:00") || matches!(yr, ", 20a5");
        let shown = format!("  input find D -type f {opt} {operand:?}: exit {rc}, output {text:?}");
        if valid_md && valid_yr && valid_tm && !operand.is_empty() {
            // a time of 1999..=this year: the 1971 entry is not newer, the 2170 one is
            if !(rc == 0 && text == "D/new\n") { eprintln!("{shown}"); }
            assert!(rc == 0 && text == "D/new\n", "a well-formed literal time was not accepted or does not separate an older from a newer entry");
        } else if impossible {
            if !rejected { eprintln!("{shown}"); }
            assert!(rejected, "a time that does not exist must be rejected before anything is printed");
        } else {
            // digits outside ASCII, short or long fields: rejected up front, or taken as some time - never a panic, and never output with a failure status
            let taken = rc == 0 && (text.is_empty() || text == "D/new\n" || text == "D/new\nD/old\n" || text == "D/old\nD/new\n");
            if !(rejected || taken) { eprintln!("{shown}"); }
            assert!(rejected || taken, "an operand is either rejected before anything is printed or taken as one instant");
        }
    }
    #[test] fn e_newer_t_operand() { kani::explore(newer_t_body) }

    fn follow_flags_body() {
        let n = pick(4);
        let mut args: Vec<&str> = Vec::new();
        let mut want = Follow::Never;
        for _ in 0..n {
            match pick(4) {
                0 => { args.push("-P"); want = Follow::Never; }
                1 => { args.push("-H"); want = Follow::Roots; }
                2 => { args.push("-L"); want = Follow::Always; }
                _ => { args.push("-O1"); }
            }
        }
        args.push(".");
        match pick(3) { 0 => {}, 1 => { args.push("-follow"); want = Follow::Always; }, _ => { args.push("-true"); args.push("-follow"); args.push("-print"); want = Follow::Always; } }
        let got = parse_args(&args).map(|p| p.config.follow);
        if got.as_ref().ok() != Some(&want) { eprintln!("  input find {:?}: follow mode {:?}, expected {:?}", args, got.as_ref().ok(), want); }
        assert!(got.ok() == Some(want), "the follow mode is not that of the last of -P/-H/-L (or 'always' with -follow)");
    }
    #[test] fn e_follow_flags() { kani::explore(follow_flags_body) }
}
