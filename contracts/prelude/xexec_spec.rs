// ---- what one invocation does, as the statement sees it (C04/C07/C19/C20) ----
/// view of std::process::ExitStatus on unix
pub struct StatusV { pub success: bool, pub code: Option<i32>, pub signal: Option<i32> }
/// view of the result of Command::status()
pub enum RunV { Status(StatusV), NotFound, CannotRun }
/// outcome classes of C19
pub enum OutV { Success, Failure, Urgent, Killed, CannotRun, NotFound, Unknown }
/// what the operating system answers for this command line (external)
pub uninterp spec fn os_run(argv: Seq<Seq<u8>>, env: Seq<(Seq<u8>, Seq<u8>)>, close_stdin: bool) -> RunV;
/// `str::replace` on the lossy text of an argument: every occurrence replaced (assumed, std)
pub uninterp spec fn replace_all(text: Seq<u8>, pat: Seq<char>, with: Seq<u8>) -> Seq<u8>;
pub uninterp spec fn env_view(env: HashMap<OsString, OsString>) -> Seq<(Seq<u8>, Seq<u8>)>;

/// C19 classification: 0 => Success; 255 => stop with 124; any other exit code => Failure (123; the
/// statement names 1-125, codes 126-254 are treated alike); signal => 125; cannot run => 126; not found => 127
pub open spec fn classify(r: RunV) -> OutV {
    match r {
        RunV::Status(s) =>
            if s.success { OutV::Success }
            else if s.code is Some { if s.code == Some(255i32) { OutV::Urgent } else { OutV::Failure } }
            else if s.signal is Some { OutV::Killed } else { OutV::Unknown },
        RunV::NotFound => OutV::NotFound,
        RunV::CannotRun => OutV::CannotRun,
    }
}
pub open spec fn os_seq(v: Seq<OsString>) -> Seq<Seq<u8>> { Seq::new(v.len(), |k: int| osv(v[k])) }
/// the command line of one invocation: command and initial arguments unchanged, then the
/// appended arguments (C04, C07); with -I every initial argument has every occurrence of R
/// replaced by the line and nothing is appended (C20)
pub open spec fn argv_of(action: ExecAction, replace: Option<String>, extra: Seq<OsString>) -> Seq<Seq<u8>> {
    match action {
        ExecAction::Command(args) => match replace {
            Some(rs) => seq![osv(args@[0])] + Seq::new((args@.len() - 1) as nat, |k: int| replace_all(lossy(osv(args@[k + 1])), rs@, lossy(osv(extra[0])))),
            None => seq![osv(args@[0])] + os_seq(args@.subrange(1, args@.len() as int)) + os_seq(extra),
        },
        ExecAction::Echo => Seq::empty(),
    }
}
pub open spec fn exec_outv(o: CommandBuilderOptions, extra: Seq<OsString>) -> OutV {
    match o.action {
        ExecAction::Command(_) => classify(os_run(argv_of(o.action, o.replace, extra), env_view(o.env), o.close_stdin)),
        ExecAction::Echo => OutV::Success,
    }
}
pub open spec fn outv(r: Result<CommandResult, CommandExecutionError>) -> OutV {
    match r {
        Ok(CommandResult::Success) => OutV::Success,
        Ok(CommandResult::Failure) => OutV::Failure,
        Err(CommandExecutionError::UrgentlyFailed) => OutV::Urgent,
        Err(CommandExecutionError::Killed { .. }) => OutV::Killed,
        Err(CommandExecutionError::CannotRun(_)) => OutV::CannotRun,
        Err(CommandExecutionError::NotFound) => OutV::NotFound,
        Err(CommandExecutionError::Unknown) => OutV::Unknown,
    }
}
