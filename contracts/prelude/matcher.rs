// ---- shared vocabulary of the find matcher units (DESIGN section 4) ----
// Ast: shape of a matcher tree.  Prim(k): a primary, identified by an abstract
// identity k (primaries are uninterpreted functions of (entry, io)).
pub enum Ast { Prim(int), Not(Box<Ast>), And(Seq<Ast>), Or(Seq<Ast>), List(Seq<Ast>) }

pub uninterp spec fn prim_sem<'a>(id: int, e: &WalkEntry, io: MatcherIO<'a>) -> (bool, MatcherIO<'a>);
/// the action table of C01: -print -print0 -printf -fprint* -ls -fls -exec* -delete
pub uninterp spec fn prim_is_action(id: int) -> bool;

// Reference evaluation of C01, taken from the property statement: -a and -o
// evaluate left to right with short circuit, ',' evaluates every operand and
// yields the last, and every composite stops as soon as -quit has fired.
pub open spec fn eval<'a>(a: Ast, e: &WalkEntry, io: MatcherIO<'a>) -> (bool, MatcherIO<'a>)
    decreases a, 0nat
{
    match a {
        Ast::Prim(id) => prim_sem(id, e, io),
        Ast::Not(b) => { let (r, io1) = eval(*b, e, io); (!r, io1) }
        Ast::And(s) => eval_and(s, 0, e, io),
        Ast::Or(s) => eval_or(s, 0, e, io),
        Ast::List(s) => eval_list(s, 0, false, e, io),
    }
}
pub open spec fn eval_and<'a>(s: Seq<Ast>, i: int, e: &WalkEntry, io: MatcherIO<'a>) -> (bool, MatcherIO<'a>)
    decreases s, s.len() - i
{
    if i < 0 || i >= s.len() { (true, io) } else {
        let (r, io1) = eval(s[i], e, io);
        if !r { (false, io1) } else if io1.quit { (true, io1) } else { eval_and(s, i + 1, e, io1) }
    }
}
pub open spec fn eval_or<'a>(s: Seq<Ast>, i: int, e: &WalkEntry, io: MatcherIO<'a>) -> (bool, MatcherIO<'a>)
    decreases s, s.len() - i
{
    if i < 0 || i >= s.len() { (false, io) } else {
        let (r, io1) = eval(s[i], e, io);
        if r { (true, io1) } else if io1.quit { (false, io1) } else { eval_or(s, i + 1, e, io1) }
    }
}
pub open spec fn eval_list<'a>(s: Seq<Ast>, i: int, rc: bool, e: &WalkEntry, io: MatcherIO<'a>) -> (bool, MatcherIO<'a>)
    decreases s, s.len() - i
{
    if i < 0 || i >= s.len() { (rc, io) } else {
        let (r, io1) = eval(s[i], e, io);
        if io1.quit { (r, io1) } else { eval_list(s, i + 1, r, e, io1) }
    }
}

// "the expression contains an action", however nested, negated or unreachable
pub open spec fn has_action(a: Ast) -> bool
    decreases a, 0nat
{
    match a {
        Ast::Prim(id) => prim_is_action(id),
        Ast::Not(b) => has_action(*b),
        Ast::And(s) => any_action(s, 0),
        Ast::Or(s) => any_action(s, 0),
        Ast::List(s) => any_action(s, 0),
    }
}
pub open spec fn any_action(s: Seq<Ast>, i: int) -> bool
    decreases s, s.len() - i
{
    if i < 0 || i >= s.len() { false } else { has_action(s[i]) || any_action(s, i + 1) }
}

pub open spec fn asts(v: Seq<Box<dyn Matcher>>) -> Seq<Ast> { Seq::new(v.len(), |k: int| v[k].ast()) }
pub open spec fn mk_and(s: Seq<Ast>) -> Ast { if s.len() == 1 { s[0] } else { Ast::And(s) } }
pub open spec fn mk_or(ss: Seq<Seq<Ast>>) -> Ast { if ss.len() == 1 { mk_and(ss[0]) } else { Ast::Or(Seq::new(ss.len(), |k: int| mk_and(ss[k]))) } }
pub open spec fn mk_list(g: Seq<Seq<Seq<Ast>>>) -> Ast { if g.len() == 1 { mk_or(g[0]) } else { Ast::List(Seq::new(g.len(), |k: int| mk_or(g[k]))) } }

// error values are not modelled (R5): only Ok/Err
pub struct VErr;
#[verifier::external_body] pub fn verr() -> VErr { VErr }
