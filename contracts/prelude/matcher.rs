// ---- shared vocabulary of the find matcher units (DESIGN section 4) ----
//@ include prelude/ast.rs
//@ include prelude/actions.rs
// Ast: shape of a matcher tree.  Prim(k): a primary, identified by an abstract
// identity k (primaries are uninterpreted functions of (entry, io)).

pub uninterp spec fn prim_sem<'a>(id: int, e: &WalkEntry, io: MatcherIO<'a>) -> (bool, MatcherIO<'a>);
// Reference evaluation of C01, taken from the property statement: -a and -o
// evaluate left to right with short circuit, ',' evaluates every operand and
// yields the last, and every composite stops as soon as -quit has fired.
pub open spec fn eval<'a>(a: Ast, e: &WalkEntry, io: MatcherIO<'a>) -> (bool, MatcherIO<'a>)
    decreases a, 0nat
{
    match a {
        Ast::Prim(id) => prim_sem(id, e, io),
        Ast::Not(b) => { let (r, io1) = eval(*b, e, io); (!r, io1) }
        Ast::And(s) => eval_and(s, 0, e, io),
        Ast::Or(s) => eval_or(s, 0, e, io),
        Ast::List(s) => eval_list(s, 0, false, e, io),
    }
}
pub open spec fn eval_and<'a>(s: Seq<Ast>, i: int, e: &WalkEntry, io: MatcherIO<'a>) -> (bool, MatcherIO<'a>)
    decreases s, s.len() - i
{
    if i < 0 || i >= s.len() { (true, io) } else {
        let (r, io1) = eval(s[i], e, io);
        if !r { (false, io1) } else if io1.quit { (true, io1) } else { eval_and(s, i + 1, e, io1) }
    }
}
pub open spec fn eval_or<'a>(s: Seq<Ast>, i: int, e: &WalkEntry, io: MatcherIO<'a>) -> (bool, MatcherIO<'a>)
    decreases s, s.len() - i
{
    if i < 0 || i >= s.len() { (false, io) } else {
        let (r, io1) = eval(s[i], e, io);
        if r { (true, io1) } else if io1.quit { (false, io1) } else { eval_or(s, i + 1, e, io1) }
    }
}
pub open spec fn eval_list<'a>(s: Seq<Ast>, i: int, rc: bool, e: &WalkEntry, io: MatcherIO<'a>) -> (bool, MatcherIO<'a>)
    decreases s, s.len() - i
{
    if i < 0 || i >= s.len() { (rc, io) } else {
        let (r, io1) = eval(s[i], e, io);
        if io1.quit { (r, io1) } else { eval_list(s, i + 1, r, e, io1) }
    }
}

pub open spec fn asts(v: Seq<Box<dyn Matcher>>) -> Seq<Ast> { Seq::new(v.len(), |k: int| v[k].ast()) }

// error values are not modelled (R5): only Ok/Err
pub struct VErr;
#[verifier::external_body] pub fn verr() -> VErr { VErr }
