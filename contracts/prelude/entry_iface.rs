// ---- WalkEntry as the primaries see it.  follow/get_metadata/depth are verified on the real
// bodies in unit entry; metadata()/file_type()/path_is_symlink() (OnceCell and closure code) are
// assumed to agree with them (listed) ----
#[verifier::external_body] pub struct WalkEntry { _p: u8 }
impl WalkEntry {
    pub uninterp spec fn pathv(&self) -> Seq<u8>;
    pub uninterp spec fn depthv(&self) -> nat;
    /// whether the follow mode follows links for this entry (-L always, -H at depth 0, -P never;
    /// an entry created for a dangling link is never followed)
    pub uninterp spec fn follows(&self) -> bool;
    /// the record the follow mode selects for this entry
    pub open spec fn rec(&self) -> Result<StatRec, ErrV> { rec_for(self.follows(), self.pathv()) }
    #[verifier::external_body] pub fn path(&self) -> (r: &Path) ensures path_v(r) == self.pathv() { unimplemented!() }
    #[verifier::external_body] pub fn depth(&self) -> (r: usize) ensures r == self.depthv() { unimplemented!() }
    #[verifier::external_body] pub fn follow(&self) -> (r: bool) ensures r == self.follows() { unimplemented!() }
    #[verifier::external_body] pub fn metadata(&self) -> (r: Result<&Metadata, WalkError>) ensures meta_ref_res(r) == self.rec() { unimplemented!() }
    #[verifier::external_body] pub fn file_type(&self) -> (r: FileType)
        ensures r == (match self.rec() { Ok(rec) => rec.ftype, Err(_) => FileType::Unknown }) { unimplemented!() }
    #[verifier::external_body] pub fn path_is_symlink(&self) -> (r: bool)
        ensures r == (lstat_of(self.pathv()) matches Ok(rec) && rec.ftype == FileType::Symlink) { unimplemented!() }
}
