// ---- R11: byte offsets in UTF-8 strings, over the char view s@ that vstd gives to `str` ----
/// encoded length of a char (1..4; 1 for ASCII): the only axioms of the theory
pub uninterp spec fn blen(c: char) -> int;
pub broadcast proof fn ax_blen(c: char) ensures 1 <= #[trigger] blen(c) <= 4, (c as u32) < 128 ==> blen(c) == 1 { admit(); }
/// byte offset of char index k
pub open spec fn boff(s: Seq<char>, k: int) -> int
    decreases k
{ if k <= 0 { 0 } else if k > s.len() { boff(s, s.len() as int) } else { boff(s, k - 1) + blen(s[k - 1]) } }
pub open spec fn is_boundary(s: Seq<char>, b: int) -> bool { exists|k: int| 0 <= k <= s.len() && b == #[trigger] boff(s, k) }
pub proof fn lemma_boff_mono(s: Seq<char>, j: int, k: int)
    requires 0 <= j <= k <= s.len(),
    ensures boff(s, j) <= boff(s, k), boff(s, k) - boff(s, j) >= k - j,
    decreases k - j,
{
    broadcast use ax_blen;
    if j < k { lemma_boff_mono(s, j, k - 1); }
}
pub proof fn lemma_boff_inj(s: Seq<char>, j: int, k: int)
    requires 0 <= j <= s.len(), 0 <= k <= s.len(), boff(s, j) == boff(s, k),
    ensures j == k,
{
    if j < k { lemma_boff_mono(s, j, k); } else if k < j { lemma_boff_mono(s, k, j); }
}
pub proof fn lemma_boff_skip(s: Seq<char>, n: int, k: int)
    requires 0 <= n <= s.len(), 0 <= k <= s.len() - n,
    ensures boff(s.skip(n), k) == boff(s, n + k) - boff(s, n),
    decreases k,
{
    if k > 0 { lemma_boff_skip(s, n, k - 1); assert(s.skip(n)[k - 1] == s[n + k - 1]); }
}
/// the char index whose byte offset is b (for a boundary b)
pub open spec fn char_idx(s: Seq<char>, b: int) -> int { choose|k: int| 0 <= k <= s.len() && b == #[trigger] boff(s, k) }
pub proof fn lemma_char_idx(s: Seq<char>, b: int)
    requires is_boundary(s, b),
    ensures 0 <= char_idx(s, b) <= s.len(), boff(s, char_idx(s, b)) == b,
{ }
/// k leading ASCII characters occupy k bytes
pub proof fn lemma_ascii_boff(s: Seq<char>, k: int)
    requires 0 <= k <= s.len(), forall|j: int| 0 <= j < k ==> (#[trigger] s[j] as u32) < 128,
    ensures boff(s, k) == k, is_boundary(s, k),
    decreases k,
{
    broadcast use ax_blen;
    if k > 0 { lemma_ascii_boff(s, k - 1); }
    assert(is_boundary(s, k)) by { assert(k == boff(s, k)); }
}
/// after a one-byte character at index j, byte offset +2 is a boundary iff the next character exists and is one byte wide
pub proof fn lemma_two_more(s: Seq<char>, j: int)
    requires 0 <= j < s.len(), blen(s[j]) == 1,
    ensures is_boundary(s, boff(s, j) + 2) <==> (j + 1 < s.len() && blen(s[j + 1]) == 1),
        (j + 1 < s.len() && blen(s[j + 1]) == 1) ==> char_idx(s, boff(s, j) + 2) == j + 2,
{
    broadcast use ax_blen;
    lemma_boff_mono(s, 0, j);
    assert(boff(s, j + 1) == boff(s, j) + 1);
    if j + 1 < s.len() && blen(s[j + 1]) == 1 {
        assert(boff(s, j + 2) == boff(s, j) + 2);
        assert(is_boundary(s, boff(s, j) + 2));
        lemma_char_idx(s, boff(s, j) + 2);
        lemma_boff_inj(s, j + 2, char_idx(s, boff(s, j) + 2));
    }
    if is_boundary(s, boff(s, j) + 2) {
        let k = char_idx(s, boff(s, j) + 2);
        lemma_char_idx(s, boff(s, j) + 2);
        if k <= j + 1 { lemma_boff_mono(s, k, j + 1); }
        assert(k >= j + 2);
        assert(j + 1 < s.len());
        assert(boff(s, j + 2) == boff(s, j + 1) + blen(s[j + 1]));
        lemma_boff_mono(s, j + 2, k);
    }
}
pub assume_specification<'a>[ core::str::Chars::<'a>::as_str ](c: &core::str::Chars<'a>) -> (r: &'a str) ensures r@ == c.remaining();
// `s.len()` in bytes
#[verifier::external_body] pub fn str_blen(s: &str) -> (r: usize) ensures r == boff(s@, s@.len() as int) { s.len() }
// `s.get(..e)`: Some(prefix) iff e is a char boundary within the string
#[verifier::external_body] pub fn str_get_to<'a>(s: &'a str, e: usize) -> (r: Option<&'a str>)
    ensures match r { Some(t) => is_boundary(s@, e as int) && t@ == s@.take(char_idx(s@, e as int)), None => !is_boundary(s@, e as int) } { s.get(..e) }
// `&s[e..]`: panics unless e is a char boundary within the string
#[verifier::external_body] pub fn str_from<'a>(s: &'a str, e: usize) -> (r: &'a str)
    requires is_boundary(s@, e as int),
    ensures r@ == s@.skip(char_idx(s@, e as int)) { &s[e..] }
// `&s[..e]`
#[verifier::external_body] pub fn str_to<'a>(s: &'a str, e: usize) -> (r: &'a str)
    requires is_boundary(s@, e as int),
    ensures r@ == s@.take(char_idx(s@, e as int)) { &s[..e] }
// `s.find([a, b])`: byte offset of the first char equal to a or b
#[verifier::external_body] pub fn str_find2(s: &str, a: char, b: char) -> (r: Option<usize>)
    ensures match r {
        // (a string holds at most isize::MAX bytes)
        Some(i) => i < isize::MAX && is_boundary(s@, i as int) && ({ let k = char_idx(s@, i as int); k < s@.len() && (s@[k] == a || s@[k] == b) && (forall|j: int| 0 <= j < k ==> s@[j] != a && s@[j] != b) }),
        None => forall|j: int| 0 <= j < s@.len() ==> s@[j] != a && s@[j] != b } { s.find([a, b]) }
