// ---- assumed contracts on std::io / std::ffi used by the xargs units ----
#[verifier::external_trait_specification]
pub trait ExRead { type ExternalTraitSpecificationFor: Read; }

#[verifier::external_type_specification]
#[verifier::external_body]
pub struct ExIoError(io::Error);

#[verifier::external_type_specification]
#[verifier::external_body]
pub struct ExOsString(OsString);

/// the bytes of an OsString (unix: OsStr is an arbitrary byte string)
pub uninterp spec fn osv(s: OsString) -> Seq<u8>;
/// String::from_utf8_lossy: identity on valid UTF-8, U+FFFD substitution otherwise
pub uninterp spec fn valid_utf8(s: Seq<u8>) -> bool;
pub uninterp spec fn lossy(s: Seq<u8>) -> Seq<u8>;
pub broadcast proof fn ax_lossy_valid(s: Seq<u8>) requires valid_utf8(s) ensures #[trigger] lossy(s) == s { admit(); }

pub open spec fn spec_is_ascii_ws(c: u8) -> bool { c == 0x20 || c == 0x09 || c == 0x0a || c == 0x0c || c == 0x0d }
pub assume_specification[ u8::is_ascii_whitespace ](c: &u8) -> (r: bool) ensures r == spec_is_ascii_ws(*c);

/// bytes the reader will still deliver (prophecy of the external stream)
pub uninterp spec fn remaining<R>(rd: &R) -> Seq<u8>;
/// a read on this reader has returned an error (sticky)
pub uninterp spec fn io_failed<R>(rd: &R) -> bool;

// R7: the EINTR retry loop around rd.read(&mut buf[..]); contract of read(2):
// 0 < n <= len bytes that are a prefix of the unread stream, or 0 exactly at EOF
#[verifier::external_body]
pub fn read_retry<R: Read>(rd: &mut R, buf: &mut Vec<u8>) -> (r: io::Result<usize>)
    ensures final(buf).len() == old(buf).len(),
        r matches Ok(n) ==> n <= old(buf).len()
            && (n == 0 <==> (remaining(old(rd)).len() == 0 || old(buf).len() == 0))
            && n <= remaining(old(rd)).len()
            && final(buf)@.subrange(0, n as int) == remaining(old(rd)).subrange(0, n as int)
            && remaining(final(rd)) == remaining(old(rd)).skip(n as int)
            && io_failed(final(rd)) == io_failed(old(rd)),
        r is Err ==> io_failed(final(rd)),
{ loop { match rd.read(&mut buf[..]) { Ok(n) => return Ok(n), Err(e) if e.kind() == io::ErrorKind::Interrupted => continue, Err(e) => return Err(e) } } }

// R3: diagnostics text is not modelled
#[verifier::external_body]
pub fn unterminated_quote_error() -> io::Error { io::Error::new(io::ErrorKind::InvalidInput, "Unterminated quote") }

// `os_string_from_bytes(&v[..])` = `OsString::from_vec(bytes.to_vec())` (unix): the bytes themselves
#[verifier::external_body]
pub fn osstring_from_bytes(v: &Vec<u8>) -> (r: OsString)
    ensures osv(r) == v@
{ std::os::unix::ffi::OsStringExt::from_vec(v.clone()) }

#[verifier::external_type_specification]
#[verifier::external_body]
#[verifier::reject_recursive_types(R)]
pub struct ExBufReader<R: ?Sized>(BufReader<R>);

/// index of the first occurrence of d in s at or after k (s.len() if none)
pub open spec fn first_delim(s: Seq<u8>, d: u8, k: int) -> int
    decreases s.len() - k
{
    if k < 0 || k >= s.len() { s.len() as int } else if s[k] == d { k } else { first_delim(s, d, k + 1) }
}
// `rd.read_until(delim, &mut buf)` on a BufReader: appends the unread bytes through the
// first delimiter (or to EOF), independent of how the underlying reads are chunked
#[verifier::external_body]
pub fn bufread_until<R: Read>(rd: &mut BufReader<R>, delim: u8, buf: &mut Vec<u8>) -> (r: io::Result<usize>)
    ensures
        r matches Ok(n) ==> ({
            let rem = remaining(old(rd));
            let j = first_delim(rem, delim, 0);
            &&& n == (if j < rem.len() { j + 1 } else { rem.len() as int })
            &&& final(buf)@ == old(buf)@ + rem.subrange(0, n as int)
            &&& remaining(final(rd)) == rem.skip(n as int)
            &&& io_failed(final(rd)) == io_failed(old(rd))
        }),
        r is Err ==> io_failed(final(rd)),
{ rd.read_until(delim, buf) }

#[verifier::external_body]
pub fn osstring_from_bytes_slice(v: &[u8]) -> (r: OsString)
    ensures osv(r) == v@
{ std::os::unix::ffi::OsStringExt::from_vec(v.to_vec()) }
