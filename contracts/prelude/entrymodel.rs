// ---- the file system as the entry tests see it (DESIGN 3.3/4) ----
#[verifier::external_type_specification] #[verifier::external_body] pub struct ExPath(Path);
#[verifier::external_type_specification] #[verifier::external_body] pub struct ExPathBuf(PathBuf);
pub uninterp spec fn path_v(p: &Path) -> Seq<u8>;

//@ extract src/find/matchers/entry.rs enum:FileType
//@ id FileType
//@ rule sub <<^pub enum FileType>> => <<#[derive(Clone, Copy, PartialEq, Eq, Structural)] pub enum FileType>> r=R12
//@ end
impl FileType {
//@ extract src/find/matchers/entry.rs method:FileType:is_dir
//@ id FileType::is_dir
//@ rule ret r
//@ contract
        ensures r == (self == FileType::Directory), //# ens.ft.is_dir
//@ end
//@ extract src/find/matchers/entry.rs method:FileType:is_file
//@ id FileType::is_file
//@ rule ret r
//@ contract
        ensures r == (self == FileType::Regular), //# ens.ft.is_file
//@ end
//@ extract src/find/matchers/entry.rs method:FileType:is_symlink
//@ id FileType::is_symlink
//@ rule ret r
//@ contract
        ensures r == (self == FileType::Symlink), //# ens.ft.is_symlink
//@ end
}

/// the status record of C13: what lstat()/stat() return
pub struct StatRec { pub ftype: FileType, pub mode: u32, pub ino: u64, pub nlink: u64, pub uid: u32, pub gid: u32, pub size: u64 }
pub uninterp spec fn rec_of(m: &Metadata) -> StatRec;
/// error classes that matter: not-found (ENOENT/ENOTDIR), loop (ELOOP), other
pub enum ErrV { NotFound, Loop, Other }
pub uninterp spec fn lstat_of(p: Seq<u8>) -> Result<StatRec, ErrV>;
pub uninterp spec fn stat_of(p: Seq<u8>) -> Result<StatRec, ErrV>;
/// POSIX: stat() never reports a symbolic link; on a non-link stat() == lstat(); stat() of an existing path cannot be not-found unless it is a (dangling) link
pub broadcast proof fn ax_stat_lstat(p: Seq<u8>)
    ensures
        #[trigger] stat_of(p) matches Ok(r) ==> r.ftype != FileType::Symlink,
        (lstat_of(p) matches Ok(r) && r.ftype != FileType::Symlink) ==> stat_of(p) == lstat_of(p),
{ admit(); }
/// the record C13 prescribes: lstat() when links are not followed; stat(), falling back to lstat() for a dangling link, when they are
pub open spec fn rec_for(follow: bool, p: Seq<u8>) -> Result<StatRec, ErrV> {
    if follow {
        match stat_of(p) { Ok(m) => Ok(m), Err(e) => if e is NotFound { lstat_of(p) } else { Err(e) } }
    } else { lstat_of(p) }
}
pub uninterp spec fn werr_v(e: &WalkError) -> ErrV;
pub open spec fn meta_res(r: Result<Metadata, WalkError>) -> Result<StatRec, ErrV> { match r { Ok(m) => Ok(rec_of(&m)), Err(e) => Err(werr_v(&e)) } }
pub open spec fn meta_ref_res(r: Result<&Metadata, WalkError>) -> Result<StatRec, ErrV> { match r { Ok(m) => Ok(rec_of(m)), Err(e) => Err(werr_v(&e)) } }
