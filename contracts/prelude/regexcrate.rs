// ---- the `regex` crate, keyed on the literal pattern text (DESIGN A.17) ----
#[verifier::external_body] pub struct Regex { _p: u8 }
#[verifier::external_body] pub struct Captures<'a> { _p: &'a u8 }
pub uninterp spec fn re_src(r: &Regex) -> Seq<char>;
pub open spec fn is_digit(c: char) -> bool { '0' <= c && c <= '9' }
pub open spec fn all_digits(s: Seq<char>) -> bool { forall|i: int| 0 <= i < s.len() ==> is_digit(#[trigger] s[i]) }
/// decimal value of a digit string (mathematical)
pub open spec fn dec_val(s: Seq<char>) -> nat
    decreases s.len()
{ if s.len() == 0 { 0 } else { dec_val(s.drop_last()) * 10 + ((s.last() as u32 - '0' as u32) as nat) } }
pub open spec fn is_sign(g: Seq<char>) -> bool { g == Seq::<char>::empty() || g == seq!['+'] || g == seq!['-'] }
#[verifier::external_body] pub fn regex_new(p: &str) -> (r: Result<Regex, VErr>)
    ensures r matches Ok(re) ==> re_src(&re) == p@,
        // the two operand patterns are valid regexes
        (p@ == r"^([+-]?)(\d+)$"@ || p@ == r"^([+-]?)(\d+)(.*)$"@) ==> r is Ok,
{ unimplemented!() }
pub proof fn lemma_decomp_unique(s1: Seq<char>, d1: Seq<char>, s2: Seq<char>, d2: Seq<char>)
    requires is_sign(s1), is_sign(s2), all_digits(d1), d1.len() > 0, all_digits(d2), d2.len() > 0, s1 + d1 == s2 + d2,
    ensures s1 == s2, d1 == d2,
{
    let w = s1 + d1;
    assert(w[0] == (if s1.len() == 0 { d1[0] } else { s1[0] }));
    assert(w[0] == (if s2.len() == 0 { d2[0] } else { s2[0] })) by { assert(w == s2 + d2); }
    assert(is_digit(d1[0]) && is_digit(d2[0]));
    assert(s1 =~= s2);
    assert(w.skip(s1.len() as int) =~= d1);
    assert((s2 + d2).skip(s2.len() as int) =~= d2);
}
impl Regex {
    // semantics of exactly the two operand patterns of find (texts matched by the extraction rule):
    //   ^([+-]?)(\d+)$       whole string = sign ++ digits
    //   ^([+-]?)(\d+)(.*)$   whole string = sign ++ digits ++ suffix, digits maximal
    #[verifier::external_body] pub fn captures<'a>(&self, s: &'a str) -> (r: Option<Captures<'a>>)
        requires re_src(self) == r"^([+-]?)(\d+)$"@ || re_src(self) == r"^([+-]?)(\d+)(.*)$"@,
        ensures match r {
            Some(c) => is_sign(c.g(1)) && all_digits(c.g(2)) && c.g(2).len() > 0
                && (re_src(self) == r"^([+-]?)(\d+)$"@ ==> s@ == c.g(1) + c.g(2))
                && (re_src(self) == r"^([+-]?)(\d+)(.*)$"@ ==> s@ == c.g(1) + c.g(2) + c.g(3) && (c.g(3).len() > 0 ==> !is_digit(c.g(3)[0]))),
            None => re_src(self) == r"^([+-]?)(\d+)$"@ ==> forall|sign: Seq<char>, digits: Seq<char>| #![trigger sign + digits] is_sign(sign) && all_digits(digits) && digits.len() > 0 ==> s@ != sign + digits,
        } { unimplemented!() }
}
impl<'a> Captures<'a> {
    pub uninterp spec fn g(&self, i: int) -> Seq<char>;
    // `&groups[i]` / `groups[i]`
    #[verifier::external_body] pub fn group(&self, i: usize) -> (r: &str) ensures r@ == self.g(i as int) { unimplemented!() }
}
// `s.parse::<u64>()` restricted to what the digit group can hold: Ok(value) iff it fits
#[verifier::external_body] pub fn parse_u64(s: &str) -> (r: Result<u64, VErr>)
    requires all_digits(s@), s@.len() > 0,
    ensures match r { Ok(v) => dec_val(s@) == v, Err(_) => dec_val(s@) > u64::MAX } { unimplemented!() }
#[verifier::external_body] pub fn str_to_string(s: &str) -> (r: String) ensures r@ == s@ { s.to_string() }
