// ---- bracket expressions of a glob (POSIX XCU 2.13.1 / XBD 9.3.5), as a reference scanner ----
pub open spec fn is_class_delim(c: char) -> bool { c == '.' || c == '=' || c == ':' }
/// first index >= k whose char is d or ']' (len if none)
pub open spec fn find_stop(p: Seq<char>, d: char, k: int) -> int
    decreases p.len() - k
{ if k < 0 || k >= p.len() { p.len() as int } else if p[k] == d || p[k] == ']' { k } else { find_stop(p, d, k + 1) } }
/// scan the list of a bracket expression from index k of p (p = the text after the opening '['), e = regex text so far.
/// ']' closes; "[." "[=" "[:" open a collating symbol / equivalence class / character class that runs to the next
/// delimiter-or-']' plus one more character (which agrees with the closing "d]" whenever the name contains neither);
/// every other character, '[' included, is an ordinary member.  Result: (regex text, characters consumed).
pub open spec fn bscan_from(p: Seq<char>, k: int, e: Seq<char>) -> Option<(Seq<char>, int)>
    decreases p.len() - k
{
    if k < 0 { None }
    else if k >= p.len() { Some((e, p.len() as int)) }          // unterminated: left to the validity check
    else if p[k] == ']' { Some((e.push(']'), k + 1)) }
    else if p[k] == '[' && k + 1 < p.len() && is_class_delim(p[k + 1]) {
        let d = p[k + 1];
        let j = find_stop(p, d, k + 2);
        if j < k + 2 || j >= p.len() || j + 1 >= p.len() || blen(p[j + 1]) != 1 { None }
        else { bscan_from(p, j + 2, e.push('[').push(d) + p.subrange(k + 2, j + 2)) }
    }
    else { bscan_from(p, k + 1, e.push(p[k])) }
}
/// '!' first negates (the regex notation uses '^'); a ']' first in the list (after the '!') is an ordinary member
pub open spec fn bscan(p: Seq<char>) -> Option<(Seq<char>, int)> {
    let k0: int = if p.len() > 0 && p[0] == '!' { 1 } else { 0 };
    let e0 = if k0 == 1 { seq!['[', '^'] } else { seq!['['] };
    let k1: int = if p.len() > k0 && p[k0] == ']' { k0 + 1 } else { k0 };
    let e1 = if k1 > k0 { e0.push(']') } else { e0 };
    bscan_from(p, k1, e1)
}
/// whether onig accepts the text as a POSIX BRE bracket expression (external)
pub uninterp spec fn bre_valid(e: Seq<char>) -> bool;
/// Some((regex text, chars consumed after '[')) for a well-formed bracket expression, None = the '[' is literal
pub open spec fn bracket(rest: Seq<char>) -> Option<(Seq<char>, int)> {
    match bscan(rest) { Some((e, n)) => if bre_valid(e) { Some((e, n)) } else { None }, None => None }
}
