// ---- find's expression grammar as a forward reference parser (DESIGN 5/C01 item 3, C11) ----
/// effect of an option-like primary on the walk configuration
pub enum Eff { None, DepthFirst, Follow, Daystart, NoLeaf, SameFs, Sorted }
pub enum Eff1 { None, RegexType, MaxDepth, MinDepth, Files0 }
/// token classes with arities: P0/P1/P2 = primary with 0/1/2 operands built by constructor `label`
pub enum Kind {
    P0 { label: Seq<char>, eff: Eff }, P1 { label: Seq<char>, eff: Eff1 }, P2 { label: Seq<char> },
    Regex { ci: bool }, Exec, Not, And, Or, Comma, Open, Close, Help, Version, Other,
}
//@ include prelude/findgrammar_gen.rs
/// the part of Config that the expression can change
pub struct CfgV { pub depth_first: bool, pub min_depth: usize, pub max_depth: usize, pub follow: Follow, pub same_fs: bool, pub sorted: bool,
                  pub today_start: bool, pub no_leaf: bool, pub files0: bool }
pub open spec fn apply_eff(e: Eff, c: CfgV) -> CfgV {
    match e {
        Eff::None => c, Eff::DepthFirst => CfgV { depth_first: true, ..c },
        Eff::Follow => CfgV { follow: Follow::Always, no_leaf: true, ..c },
        Eff::Daystart => CfgV { today_start: true, ..c }, Eff::NoLeaf => CfgV { no_leaf: true, ..c },
        Eff::SameFs => CfgV { same_fs: true, ..c }, Eff::Sorted => CfgV { sorted: true, ..c },
    }
}
pub open spec fn apply_eff1(e: Eff1, operand: Seq<char>, c: CfgV) -> CfgV {
    match e {
        Eff1::MaxDepth => CfgV { max_depth: num_of(operand), ..c }, Eff1::MinDepth => CfgV { min_depth: num_of(operand), ..c },
        Eff1::Files0 => CfgV { files0: true, ..c }, _ => c,
    }
}
/// an operator must be followed by something that is not the end or a closing parenthesis
pub open spec fn more(args: Seq<&str>, i: int) -> bool { i < args.len() - 1 && args[i + 1] != ")" }
/// -exec: where the scan for ';' or '{} +' stops
pub open spec fn exec_end(args: Seq<&str>, k: int) -> int
    decreases args.len() - k
{
    if k < 1 || k >= args.len() { args.len() as int }
    else if args[k] == ";" || (args[k - 1] == "{}" && args[k] == "+") { k }
    else { exec_end(args, k + 1) }
}
/// result of parsing from token i: (index where parsing stopped, expression, configuration, halted by -help/-version)
pub struct Parsed { pub j: int, pub ast: Ast, pub cfg: CfgV, pub halted: bool, pub rt: RegexType }
/// fold the tokens from i on into the group structure g (list of or-groups of and-groups):
/// '!' toggles negation of the next operand, a primary or '( expr )' joins the current and-group,
/// -a is a separator that needs a left operand, -o closes the and-group, ',' closes the or-group,
/// parentheses recurse and bind tightest; an operator directly after an operator or '!' (opx) is an error
pub open spec fn fold_from(args: Seq<&str>, i: int, g: G, neg: bool, opx: bool, paren: bool, rt: RegexType, c: CfgV) -> Option<Parsed>
    decreases args.len() - i
{
    if i < 0 { None }
    else if i >= args.len() { if paren { None } else { Some(Parsed { j: args.len() as int, ast: mk_list(g), cfg: c, halted: false, rt }) } }
    else {
        match kind(args[i]) {
            Kind::P0 { label, eff } => fold_from(args, i + 1, g_push_and(g, wrap(neg, Ast::Prim(pid(label, i)))), false, false, paren, rt, apply_eff(eff, c)),
            Kind::P1 { label, eff } => if i + 1 >= args.len() { None } else {
                fold_from(args, i + 2, g_push_and(g, wrap(neg, Ast::Prim(pid(label, i + 1)))), false, false, paren,
                          if eff is RegexType { regex_of(args[i + 1]@) } else { rt }, apply_eff1(eff, args[i + 1]@, c)) },
            Kind::P2 { label } => if i + 2 >= args.len() { None } else {
                fold_from(args, i + 3, g_push_and(g, wrap(neg, Ast::Prim(pid(label, i + 2)))), false, false, paren, rt, c) },
            Kind::Regex { ci } => if i + 1 >= args.len() { None } else {
                fold_from(args, i + 2, g_push_and(g, wrap(neg, Ast::Prim(regex_pid(rt, ci, i + 1)))), false, false, paren, rt, c) },
            Kind::Exec => {
                let k = exec_end(args, i + 1);
                let req: int = if k < args.len() && args[k] == "+" { 3 } else { 2 };
                if k < i + req || k >= args.len() { None }
                else if args[k] == ";" { fold_from(args, k + 1, g_push_and(g, wrap(neg, Ast::Prim(pid("SingleExecMatcher::new"@, k)))), false, false, paren, rt, c) }
                else if count_braces(args.subrange(i + 2, k)) == 1 { fold_from(args, k + 1, g_push_and(g, wrap(neg, Ast::Prim(pid("MultiExecMatcher::new"@, k)))), false, false, paren, rt, c) }
                else { None }
            }
            Kind::Not => if !more(args, i) { None } else { fold_from(args, i + 1, g, !neg, true, paren, rt, c) },
            Kind::And => if !more(args, i) || opx || g_cur_empty(g) { None } else { fold_from(args, i + 1, g, neg, true, paren, rt, c) },
            Kind::Or => if !more(args, i) || opx || g_cur_empty(g) { None } else { fold_from(args, i + 1, g_open_or(g), neg, true, paren, rt, c) },
            Kind::Comma => if !more(args, i) || opx || g_cur_empty(g) { None } else { fold_from(args, i + 1, g_open_list(g), neg, true, paren, rt, c) },
            Kind::Open => match fold_from(args, i + 1, g0(), false, false, true, rt, c) {
                None => None,
                Some(sub) =>
                    if sub.halted { Some(Parsed { j: sub.j + 1, ast: mk_list(g), cfg: sub.cfg, halted: true, rt: sub.rt }) }
                    else if sub.j < i + 1 || sub.j >= args.len() { None }
                    else { fold_from(args, sub.j + 1, g_push_and(g, wrap(neg, sub.ast)), false, false, paren, sub.rt, sub.cfg) },
            },
            Kind::Close => if !paren || i < 1 || args[i - 1] == "(" { None } else { Some(Parsed { j: i, ast: mk_list(g), cfg: c, halted: false, rt }) },
            Kind::Help => Some(Parsed { j: i + 1, ast: mk_list(g), cfg: c, halted: true, rt }),
            Kind::Version => Some(Parsed { j: i + 1, ast: mk_list(g), cfg: c, halted: true, rt }),
            Kind::Other => match newer_xy(args[i]@) {
                Some((x, y)) => if i + 1 >= args.len() || x == "B"@ { None } else {
                    fold_from(args, i + 2, g_push_and(g, wrap(neg, Ast::Prim(pid(if y == "t"@ { "NewerTimeMatcher::new"@ } else { "NewerOptionMatcher::new"@ }, i + 1)))), false, false, paren, rt, c) },
                None => None,
            },
        }
    }
}
