// ---- strings ----
/// strings with equal views are equal (Verus specifies exec ==/!= on &str through views,
/// literal match arms through value equality)
pub broadcast proof fn ax_str_ext(a: &str, b: &str) ensures (#[trigger] a@ == #[trigger] b@) ==> a == b { admit(); }
