// ---- abstract limiter chain (C04) ----
pub struct ExhaustedCommandSpaceV { pub x: int }
/// abstract limiter state shared by the three limiter kinds
pub enum Lim { Chars { cur: nat, max: nat }, Args { cur: nat, max: nat }, Lines { cur: nat, max: nat } }
/// cost of an argument for exec: its bytes plus one terminator
pub open spec fn arg_cost(a: Argument) -> nat { osv(a.arg).len() + 1 }
pub open spec fn lim_fits(l: Lim, a: Argument) -> bool {
    match l {
        Lim::Chars { cur, max } => cur + arg_cost(a) <= max,
        Lim::Args { cur, max } => cur < max,
        Lim::Lines { cur, max } => cur <= max,
    }
}
pub open spec fn lim_charge(l: Lim, a: Argument) -> Lim {
    match l {
        Lim::Chars { cur, max } => Lim::Chars { cur: cur + arg_cost(a), max },
        Lim::Args { cur, max } => Lim::Args { cur: if a.kind != ArgumentKind::Initial { cur + 1 } else { cur }, max },
        Lim::Lines { cur, max } => Lim::Lines { cur: if a.kind == ArgumentKind::HardTerminated { cur + 1 } else { cur }, max },
    }
}
pub open spec fn chain_fits(c: Seq<Lim>, a: Argument) -> bool { forall|k: int| 0 <= k < c.len() ==> lim_fits(#[trigger] c[k], a) }
pub open spec fn chain_charge(c: Seq<Lim>, a: Argument) -> Seq<Lim> { Seq::new(c.len(), |k: int| lim_charge(c[k], a)) }
/// index of the first limiter that rejects
pub open spec fn first_reject(c: Seq<Lim>, a: Argument) -> int
    decreases c.len()
{ if c.len() == 0 { 0 } else if !lim_fits(c[0], a) { 0 } else { 1 + first_reject(c.skip(1), a) } }
