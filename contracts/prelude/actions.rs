// ---- the action table of C01 ----
/// -print -print0 -printf -fprint* -ls -fls -exec* -delete are actions; -prune and -quit are not
pub uninterp spec fn prim_is_action(id: int) -> bool;
// "the expression contains an action", however nested, negated or unreachable
pub open spec fn has_action(a: Ast) -> bool
    decreases a, 0nat
{
    match a {
        Ast::Prim(id) => prim_is_action(id),
        Ast::Not(b) => has_action(*b),
        Ast::And(s) => any_action(s, 0),
        Ast::Or(s) => any_action(s, 0),
        Ast::List(s) => any_action(s, 0),
    }
}
pub open spec fn any_action(s: Seq<Ast>, i: int) -> bool
    decreases s, s.len() - i
{
    if i < 0 || i >= s.len() { false } else { has_action(s[i]) || any_action(s, i + 1) }
}
