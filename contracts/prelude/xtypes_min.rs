// ---- xargs argument types, extracted verbatim (no reader interface) ----
#[derive(PartialEq, Eq, Structural)]
//@ extract src/xargs/mod.rs enum:ArgumentKind
//@ rule pub
//@ end
//@ extract src/xargs/mod.rs struct:Argument
//@ rule pubfields
//@ end
