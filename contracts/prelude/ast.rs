// ---- Ast of a find expression (shared by logic/parse); primaries are identified abstractly ----
pub enum Ast { Prim(int), Not(Box<Ast>), And(Seq<Ast>), Or(Seq<Ast>), List(Seq<Ast>) }
pub type G = Seq<Seq<Seq<Ast>>>;
pub open spec fn g0() -> G { seq![seq![Seq::<Ast>::empty()]] }
pub open spec fn g_wf(g: G) -> bool { g.len() >= 1 && forall|k: int| 0 <= k < g.len() ==> (#[trigger] g[k]).len() >= 1 }
pub open spec fn g_cur_empty(g: G) -> bool { g.last().last().len() == 0 }
pub open spec fn g_push_and(g: G, a: Ast) -> G { g.update(g.len() - 1, g.last().update(g.last().len() - 1, g.last().last().push(a))) }
pub open spec fn g_open_or(g: G) -> G { g.update(g.len() - 1, g.last().push(Seq::<Ast>::empty())) }
pub open spec fn g_open_list(g: G) -> G { g.push(seq![Seq::<Ast>::empty()]) }
pub open spec fn mk_and(s: Seq<Ast>) -> Ast { if s.len() == 1 { s[0] } else { Ast::And(s) } }
pub open spec fn mk_or(ss: Seq<Seq<Ast>>) -> Ast { if ss.len() == 1 { mk_and(ss[0]) } else { Ast::Or(Seq::new(ss.len(), |k: int| mk_and(ss[k]))) } }
pub open spec fn mk_list(g: G) -> Ast { if g.len() == 1 { mk_or(g[0]) } else { Ast::List(Seq::new(g.len(), |k: int| mk_or(g[k]))) } }
pub open spec fn wrap(neg: bool, a: Ast) -> Ast { if neg { Ast::Not(Box::new(a)) } else { a } }
pub proof fn lemma_wf_ops(g: G, a: Ast)
    requires g_wf(g)
    ensures g_wf(g_push_and(g, a)), g_wf(g_open_or(g)), g_wf(g_open_list(g)), g_wf(g0())
{}
