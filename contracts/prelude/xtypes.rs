// ---- xargs argument types, extracted verbatim ----
#[derive(PartialEq, Eq, Structural)]
//@ extract src/xargs/mod.rs enum:ArgumentKind
//@ rule pub
//@ end
//@ extract src/xargs/mod.rs struct:Argument
//@ rule pubfields
//@ end

/// one input argument as the statement sees it: its bytes and whether it ended an input line
pub struct Tk { pub bytes: Seq<u8>, pub hard: bool }
pub open spec fn arg_is(a: Argument, t: Tk) -> bool {
    &&& osv(a.arg) == t.bytes   // every byte of the argument, unchanged
    &&& (a.kind == ArgumentKind::HardTerminated <==> t.hard)
    &&& (a.kind == ArgumentKind::SoftTerminated <==> !t.hard)
}

// the reader interface: `args()` is the sequence of arguments still to come
pub trait ArgumentReader {
    spec fn args(&self) -> Seq<Tk>;
    spec fn bad(&self) -> bool;
    spec fn failed(&self) -> bool;
//@ extract src/xargs/mod.rs traitfn:ArgumentReader:next
//@ id ArgumentReader::next
//@ rule ret r
//@ contract
        ensures reader_next_post(old(self).args(), old(self).bad(), r, final(self).args(), final(self).bad(), final(self).failed()) //# trait.next
//@ end
}
pub open spec fn reader_next_post(args0: Seq<Tk>, bad0: bool, r: io::Result<Option<Argument>>, args1: Seq<Tk>, bad1: bool, failed1: bool) -> bool {
    match r {
        Ok(Some(a)) => args0.len() > 0 && arg_is(a, args0[0]) && args1 == args0.skip(1) && bad1 == bad0,
        Ok(None) => args0.len() == 0 && !bad0 && args1.len() == 0 && !bad1,
        Err(_) => (args0.len() == 0 && bad0) || failed1,
    }
}
