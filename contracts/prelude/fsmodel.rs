// ---- std::fs::Metadata / std::time as an abstract status record (DESIGN 3.3) ----
#[verifier::external_type_specification] #[verifier::external_body] pub struct ExMetadata(Metadata);
#[verifier::external_type_specification] #[verifier::external_body] pub struct ExSystemTime(SystemTime);
#[verifier::external_type_specification] #[verifier::external_body] pub struct ExSystemTimeError(SystemTimeError);
#[verifier::external_type_specification] #[verifier::external_body] pub struct ExIoError(io::Error);
/// error values are not modelled (R5): only Ok/Err
pub struct VErr;
#[verifier::external_body] pub fn verr() -> VErr { VErr }
#[verifier::external_body] pub struct WalkError { _p: u8 }
impl vstd::std_specs::convert::FromSpecImpl<WalkError> for VErr {
    open spec fn obeys_from_spec() -> bool { true }
    open spec fn from_spec(e: WalkError) -> Self { VErr }
}
impl From<WalkError> for VErr { fn from(e: WalkError) -> (r: Self) { VErr } }
impl vstd::std_specs::convert::FromSpecImpl<io::Error> for VErr {
    open spec fn obeys_from_spec() -> bool { true }
    open spec fn from_spec(e: io::Error) -> Self { VErr }
}
impl From<io::Error> for VErr { fn from(e: io::Error) -> (r: Self) { VErr } }

/// timestamps in nanoseconds since the epoch (full resolution)
pub uninterp spec fn t_ns(t: SystemTime) -> int;
pub uninterp spec fn d_ns(d: Duration) -> int;
pub uninterp spec fn e_ns(e: &SystemTimeError) -> int;
pub assume_specification[ SystemTime::duration_since ](this: &SystemTime, earlier: SystemTime) -> (r: Result<Duration, SystemTimeError>)
    ensures match r { Ok(d) => t_ns(*this) >= t_ns(earlier) && d_ns(d) == t_ns(*this) - t_ns(earlier),
                      Err(e) => t_ns(*this) < t_ns(earlier) && e_ns(&e) == t_ns(earlier) - t_ns(*this) };
/// the comparison operators of SystemTime (`a > b`, `a <= b`, `a == b`, cmp) order instants as duration_since does: by t_ns, at full resolution
pub open spec fn ord_of(a: int, b: int) -> Option<core::cmp::Ordering> {
    if a < b { Some(core::cmp::Ordering::Less) } else if a == b { Some(core::cmp::Ordering::Equal) } else { Some(core::cmp::Ordering::Greater) }
}
pub broadcast proof fn ax_systemtime_ord(a: SystemTime, b: SystemTime)
    ensures <SystemTime as vstd::std_specs::cmp::PartialOrdSpec>::obeys_partial_cmp_spec(),
            #[trigger] vstd::std_specs::cmp::PartialOrdSpec::partial_cmp_spec(&a, &b) == ord_of(t_ns(a), t_ns(b)),
{ admit(); }
pub broadcast proof fn ax_systemtime_eq_obeys() ensures #[trigger] <SystemTime as vstd::std_specs::cmp::PartialEqSpec>::obeys_eq_spec() { admit(); }
pub broadcast proof fn ax_systemtime_eq(a: SystemTime, b: SystemTime) ensures #[trigger] vstd::std_specs::cmp::PartialEqSpec::eq_spec(&a, &b) == (t_ns(a) == t_ns(b)) { admit(); }
/// `i64::from(b)` / `u64::from(b)` for a bool b is 1 or 0 (std; vstd leaves From<bool> unspecified, so the result would be unconstrained)
pub broadcast proof fn ax_i64_from_bool_obeys() ensures #[trigger] <i64 as vstd::std_specs::convert::FromSpec<bool>>::obeys_from_spec() { admit(); }
pub broadcast proof fn ax_i64_from_bool(b: bool) ensures #[trigger] <i64 as vstd::std_specs::convert::FromSpec<bool>>::from_spec(b) == (if b { 1i64 } else { 0i64 }) { admit(); }
pub broadcast proof fn ax_u64_from_bool_obeys() ensures #[trigger] <u64 as vstd::std_specs::convert::FromSpec<bool>>::obeys_from_spec() { admit(); }
pub broadcast proof fn ax_u64_from_bool(b: bool) ensures #[trigger] <u64 as vstd::std_specs::convert::FromSpec<bool>>::from_spec(b) == (if b { 1u64 } else { 0u64 }) { admit(); }
pub broadcast group model_ops { ax_systemtime_ord, ax_systemtime_eq_obeys, ax_systemtime_eq, ax_i64_from_bool_obeys, ax_i64_from_bool, ax_u64_from_bool_obeys, ax_u64_from_bool }
pub assume_specification[ SystemTimeError::duration ](e: &SystemTimeError) -> (r: Duration) ensures d_ns(r) == e_ns(e);
pub assume_specification[ Duration::as_secs ](d: &Duration) -> (r: u64) ensures r == d_ns(*d) / 1_000_000_000;
pub broadcast proof fn ax_duration_range(d: Duration) ensures 0 <= #[trigger] d_ns(d) < 18446744073709551616 * 1_000_000_000 { admit(); }

/// the status record behind a Metadata value: the four timestamps (ns)
pub uninterp spec fn md_atime(m: &Metadata) -> int;
pub uninterp spec fn md_mtime(m: &Metadata) -> int;
pub uninterp spec fn md_ctime(m: &Metadata) -> int;
pub uninterp spec fn md_btime(m: &Metadata) -> int;
pub assume_specification[ Metadata::accessed ](m: &Metadata) -> (r: io::Result<SystemTime>) ensures r matches Ok(t) ==> t_ns(t) == md_atime(m);
pub assume_specification[ Metadata::modified ](m: &Metadata) -> (r: io::Result<SystemTime>) ensures r matches Ok(t) ==> t_ns(t) == md_mtime(m);
pub assume_specification[ Metadata::created ](m: &Metadata) -> (r: io::Result<SystemTime>) ensures r matches Ok(t) ==> t_ns(t) == md_btime(m);
