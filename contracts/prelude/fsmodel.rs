// ---- std::fs::Metadata / std::time as an abstract status record (DESIGN 3.3) ----
#[verifier::external_type_specification] #[verifier::external_body] pub struct ExMetadata(Metadata);
#[verifier::external_type_specification] #[verifier::external_body] pub struct ExSystemTime(SystemTime);
#[verifier::external_type_specification] #[verifier::external_body] pub struct ExSystemTimeError(SystemTimeError);
#[verifier::external_type_specification] #[verifier::external_body] pub struct ExIoError(io::Error);
/// error values are not modelled (R5): only Ok/Err
pub struct VErr;
#[verifier::external_body] pub fn verr() -> VErr { VErr }
#[verifier::external_body] pub struct WalkError { _p: u8 }
impl vstd::std_specs::convert::FromSpecImpl<WalkError> for VErr {
    open spec fn obeys_from_spec() -> bool { true }
    open spec fn from_spec(e: WalkError) -> Self { VErr }
}
impl From<WalkError> for VErr { fn from(e: WalkError) -> (r: Self) { VErr } }
impl vstd::std_specs::convert::FromSpecImpl<io::Error> for VErr {
    open spec fn obeys_from_spec() -> bool { true }
    open spec fn from_spec(e: io::Error) -> Self { VErr }
}
impl From<io::Error> for VErr { fn from(e: io::Error) -> (r: Self) { VErr } }

/// timestamps in nanoseconds since the epoch (full resolution)
pub uninterp spec fn t_ns(t: SystemTime) -> int;
pub uninterp spec fn d_ns(d: Duration) -> int;
pub uninterp spec fn e_ns(e: &SystemTimeError) -> int;
pub assume_specification[ SystemTime::duration_since ](this: &SystemTime, earlier: SystemTime) -> (r: Result<Duration, SystemTimeError>)
    ensures match r { Ok(d) => t_ns(*this) >= t_ns(earlier) && d_ns(d) == t_ns(*this) - t_ns(earlier),
                      Err(e) => t_ns(*this) < t_ns(earlier) && e_ns(&e) == t_ns(earlier) - t_ns(*this) };
pub assume_specification[ SystemTimeError::duration ](e: &SystemTimeError) -> (r: Duration) ensures d_ns(r) == e_ns(e);
pub assume_specification[ Duration::as_secs ](d: &Duration) -> (r: u64) ensures r == d_ns(*d) / 1_000_000_000;
pub broadcast proof fn ax_duration_range(d: Duration) ensures 0 <= #[trigger] d_ns(d) < 18446744073709551616 * 1_000_000_000 { admit(); }

/// the status record behind a Metadata value: the four timestamps (ns)
pub uninterp spec fn md_atime(m: &Metadata) -> int;
pub uninterp spec fn md_mtime(m: &Metadata) -> int;
pub uninterp spec fn md_ctime(m: &Metadata) -> int;
pub uninterp spec fn md_btime(m: &Metadata) -> int;
pub assume_specification[ Metadata::accessed ](m: &Metadata) -> (r: io::Result<SystemTime>) ensures r matches Ok(t) ==> t_ns(t) == md_atime(m);
pub assume_specification[ Metadata::modified ](m: &Metadata) -> (r: io::Result<SystemTime>) ensures r matches Ok(t) ==> t_ns(t) == md_mtime(m);
pub assume_specification[ Metadata::created ](m: &Metadata) -> (r: io::Result<SystemTime>) ensures r matches Ok(t) ==> t_ns(t) == md_btime(m);
