#!/usr/bin/env python3
"""markdown table of the seeded changes and what the checks said (from seeded/*/meta.json and result.json)"""
import json, os
ROOT = os.path.dirname(os.path.dirname(os.path.abspath(__file__)))
rows = []
for sid in sorted(os.listdir(os.path.join(ROOT, 'seeded'))):
    d = os.path.join(ROOT, 'seeded', sid)
    if not os.path.exists(os.path.join(d, 'meta.json')):
        continue
    m = json.load(open(os.path.join(d, 'meta.json')))
    r = json.load(open(os.path.join(d, 'result.json'))) if os.path.exists(os.path.join(d, 'result.json')) else {}
    summ = m.get('summary', '').replace('\n', ' ').replace('|', '\\|')
    summ = summ[:150] + ('…' if len(summ) > 150 else '')
    by = ', '.join(o.replace('|', '\\|')[:90] for o in (r.get('failed_obligations') or [])[:2])
    if r.get('verdict') == 'undecided':
        by = (r.get('undecided_lines') or [''])[0].split('reason=')[-1][:110].replace('|', '\\|')
    rows.append('| %s | %s | %s | %s |' % (sid, summ, r.get('verdict', 'not run'), by))
print('| seed | change | quick check | failed obligation / reason |')
print('|---|---|---|---|')
print('\n'.join(rows))
from collections import Counter
c = Counter(json.load(open(os.path.join(ROOT, 'seeded', s, 'result.json')))['verdict'] for s in os.listdir(os.path.join(ROOT, 'seeded')) if os.path.exists(os.path.join(ROOT, 'seeded', s, 'result.json')))
print('\nTotals: ' + ', '.join('%s %d' % kv for kv in sorted(c.items())))
