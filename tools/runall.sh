#!/bin/sh
# run every claimed check (quick tier) on /repo as it is; used before committing so that the
# committed evidence files come from the unchanged tree
cd "$(dirname "$0")/.."
tier=${1:-quick}
rc=0
for p in $(python3 -c "import json;print(' '.join(c['property_id'] for c in json.load(open('MANIFEST.json'))['checks']))"); do
  bin/check $p --tier $tier | tail -1 || rc=1
done
exit $rc
