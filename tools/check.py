#!/usr/bin/env python3
"""check.py <Cxx> [--tier quick|thorough] [--replay FILE] | --relock | --all

Decides one property: regenerates every Verus unit that serves it from /repo's
current working tree, runs Verus on each (plus a vacuity variant), maps every
failed obligation back to a named contract clause or to the /repo source line,
and compares with KNOWN_FINDINGS.json.  Exit 0: all obligations tagged with the
property discharged (or listed findings); 1: at least one VIOLATION; 2:
undecided (lost anchor, unsupported construct, tool failure, vacuous
precondition, resource limit)."""
import concurrent.futures as cf
import glob
import hashlib
import json
import os
import re
import subprocess
import sys
import time

HERE = os.path.dirname(os.path.abspath(__file__))
sys.path.insert(0, HERE)
import vengine as ve
import rustlex as rl

VERIF = ve.VERIF
OUT = os.path.join(VERIF, 'out')
EVID = os.environ.get('VERIF_EVIDENCE_DIR') or os.path.join(VERIF, 'evidence')
KNOWN = os.path.join(VERIF, 'KNOWN_FINDINGS.json')
LOCK = os.path.join(VERIF, 'contracts', 'OBLIGATIONS.lock.json')
VERUS_ARGS = ['--multiple-errors', '50', '--output-json', '--time', '--error-format=json']

KINDS = [
    ('postcondition not satisfied', 'post'),
    ('unable to prove post-condition of closure', 'post'),   # the `ensures` an extraction rule puts on a closure of the real code
    ('precondition not satisfied', 'pre'),
    ('precondition not met', 'pre'),     # built-in preconditions, e.g. 'index in bounds for this access': the real code would panic
    ('invariant not satisfied before loop', 'inv-entry'),
    ('invariant not satisfied at end of loop body', 'inv-end'),
    ('loop invariant', 'inv'),
    ('assertion failed', 'assert'),
    ('possible arithmetic underflow/overflow', 'overflow'),
    ('possible division by zero', 'divzero'),
    ('decreases not satisfied', 'decreases'),
    ('could not prove termination', 'termination'),
    ('loop ensures', 'loop-ens'),
    ('possible bit shift', 'shift'),
    ('unreachable', 'unreachable'),
    ('recommendation not met', 'recommends'),
]


def unit_files():
    return sorted(glob.glob(os.path.join(VERIF, 'contracts', '*.vrs')))


def unit_meta(path):
    meta = {'unit': os.path.basename(path)[:-4], 'serves': [], 'path': path}
    for line in open(path):
        s = line.strip()
        if s.startswith('//@ unit '):
            meta['unit'] = s.split()[2]
        elif s.startswith('//@ serves '):
            meta['serves'] = s.split()[2:]
        elif s.startswith('//@ tier '):
            meta['tier'] = s.split()[2]
        elif s.startswith('//@ rlimit '):
            meta['rlimit'] = int(s.split()[2])
    return meta


def norm(s):
    return re.sub(r'\s+', ' ', re.sub(r'//.*$', '', s)).strip()


class UnitResult:
    pass


CACHE = {'hits': 0, 'misses': 0}


def run_verus(rs, rlimit=None):
    cmd = ['verus', os.path.basename(rs)] + VERUS_ARGS
    if rlimit:
        cmd += ['--rlimit', str(rlimit)]
    # result cache keyed by the full generated text (regenerated from /repo on every run) and the
    # command line: identical verifier input, identical verdict
    key = hashlib.sha256(open(rs, 'rb').read() + ' '.join(cmd[2:]).encode() + ve_version().encode()).hexdigest()
    cpath = os.path.join(OUT, 'cache', key + '.json')
    if os.environ.get('VERIF_NOCACHE') != '1' and os.path.exists(cpath):
        try:
            c = json.load(open(cpath))
            # diagnostics name the file they were produced from; spans are positional, so re-key the file name
            for d in c['diags']:
                for sp in d.get('spans', []):
                    if sp.get('file_name', '').endswith('.rs') and '/' not in sp['file_name']:
                        sp['file_name'] = os.path.basename(rs)
            CACHE['hits'] += 1
            return cmd, c['rc'], c['js'], c['diags'], c['dt'], c['stderr']
        except Exception:
            pass
    CACHE['misses'] += 1
    t0 = time.time()
    p = subprocess.run(cmd, cwd=os.path.dirname(rs), capture_output=True, text=True)
    dt = time.time() - t0
    try:
        js = json.loads(p.stdout)
    except Exception:
        js = None
    diags = []
    for line in p.stderr.split('\n'):
        line = line.strip()
        if line.startswith('{'):
            try:
                diags.append(json.loads(line))
            except Exception:
                pass
    try:
        os.makedirs(os.path.join(OUT, 'cache'), exist_ok=True)
        json.dump({'rc': p.returncode, 'js': js, 'diags': diags, 'dt': dt, 'stderr': p.stderr[-4000:]}, open(cpath, 'w'))
    except Exception:
        pass
    return cmd, p.returncode, js, diags, dt, p.stderr


def origin_of(span, lmap, rsname):
    if os.path.basename(span.get('file_name', '')) != rsname:
        return {'k': 'ext', 'file': span.get('file_name'), 'line': span.get('line_start'), 'tags': None}
    ln = span['line_start']
    if 1 <= ln <= len(lmap):
        return lmap[ln - 1]
    return {'k': 'unknown'}


def span_text(span):
    return norm(' '.join(t['text'] for t in span.get('text', [])))


def classify(diag, lmap, rsname, unit):
    msg = diag['message']
    kind = 'other'
    for pat, k in KINDS:
        if pat in msg:
            kind = k
            break
    spans = diag.get('spans', [])
    site = None
    clause = None
    for sp in sorted(spans, key=lambda s: not s['is_primary']):
        o = origin_of(sp, lmap, rsname)
        if o.get('k') == 'repo' and site is None:
            site = (sp, o)
        elif o.get('k') in ('spl', 'unit', 'ext', 'vac') and clause is None:
            clause = (sp, o)
    item = None
    tags = None
    where = None
    if site:
        item = site[1]['item']
        tags = site[1]['tags']
        where = '%s:%d' % (site[1]['file'], site[1]['line'])
    if clause:
        o = clause[1]
        if item is None:
            item = o.get('item', '<unit>')
        if o.get('label'):
            tags = o.get('tags') or tags
            ctext = o['label']
        else:
            ctext = span_text(clause[0])
            if tags is None:
                tags = o.get('tags')
        if where is None and o.get('k') in ('spl',):
            where = '%s (contract of %s)' % (o.get('file'), item)
    else:
        ctext = None
    if kind == 'pre':
        stext = span_text(site[0]) if site else ''
        oid = '%s::%s::pre(%s)@%s' % (unit, item, ctext, stext)
    elif clause and (clause[1].get('label') or not site):
        oid = '%s::%s::%s::%s' % (unit, item, kind, ctext)
    elif site:
        oid = '%s::%s::%s::%s' % (unit, item, kind, span_text(site[0]))
    else:
        oid = '%s::?::%s::%s' % (unit, kind, norm(msg))
    return {
        'id': oid, 'kind': kind, 'message': msg, 'item': item, 'tags': tags or [], 'where': where,
        'rendered': diag.get('rendered', ''), 'vac': bool(clause and clause[1].get('k') == 'vac'),
        'vac_item': clause[1].get('item') if clause and clause[1].get('k') == 'vac' else None,
    }


def scan_assumptions(lines):
    out = []
    for i, (text, o) in enumerate(lines):
        t = text.strip()
        if t.startswith('//'):
            continue
        if '// case-split' in text:
            continue
        if re.search(r'external_body|assume_specification|\buninterp\b|\badmit\(\)|\bassume\(|external_trait_specification|external_type_specification|exec_allows_no_decreases_clause', text):
            out.append(norm(text)[:160])
    return out


def run_unit(path, repo=None, with_vac=True):
    """returns dict with status ok|undecided, failures, stats"""
    res = {'unit': os.path.basename(path)[:-4], 'status': 'ok', 'failures': [], 'reason': None}
    t0 = time.time()
    try:
        meta, lines, items, rs = ve.write_generated(path, OUT, repo, vac=False)
    except ve.Undecided as ex:
        res['status'] = 'undecided'
        res['reason'] = str(ex)
        return res
    res['unit'] = meta['unit']
    res['generated'] = rs
    lmap = [o for _, o in lines]
    res['items'] = [{'id': it.id, 'file': it.file, 'line': it.repo_line, 'end_line': it.repo_end_line, 'tags': it.tags,
                     'rules': it.rule_counts, 'is_fn': bool(re.match(r'(fn|method|traitfn):', it.selector))} for it in items]
    labels = {}
    for t, o in lines:
        if o.get('label'):
            labels['%s::%s' % (o.get('item', '<unit>'), o['label'])] = o.get('tags') or []
    res['labels'] = labels
    res['assumptions'] = scan_assumptions(lines)
    res['n_lines'] = len(lines)
    res['n_repo_lines'] = sum(1 for o in lmap if o.get('k') == 'repo')

    base_rlimit = unit_meta(path).get('rlimit')

    def go(rsfile, lm):
        cmd, rc, js, diags, dt, stderr = run_verus(rsfile, rlimit=base_rlimit)
        errs = [d for d in diags if d.get('level') == 'error' and 'aborting due to' not in d.get('message', '')]
        if any('rlimit' in d['message'].lower() or 'resource limit' in d['message'].lower() for d in errs):
            cmd, rc, js, diags, dt2, stderr = run_verus(rsfile, rlimit=max(60, 4 * (base_rlimit or 10)))
            dt += dt2
            errs = [d for d in diags if d.get('level') == 'error' and 'aborting due to' not in d.get('message', '')]
        return cmd, rc, js, errs, dt, stderr

    ncases = max([len(getattr(it, 'split_cases', [])) for it in items] + [0])
    res['case_split'] = ncases
    futs = {}
    casefuts = []
    with cf.ThreadPoolExecutor(max_workers=16) as ex:
        futs['main'] = ex.submit(go, rs, lmap)
        for j in range(1, ncases + 1):
            _, clines, _, crs = ve.write_generated(path, OUT, repo, vac=False, variant=j)
            casefuts.append((j, [o for _, o in clines], crs, ex.submit(go, crs, [o for _, o in clines])))
        if with_vac:
            try:
                _, vlines, _, vrs = ve.write_generated(path, OUT, repo, vac=True)
                vmap = [o for _, o in vlines]
                if any(o.get('k') == 'vac' for o in vmap):
                    futs['vac'] = ex.submit(go, vrs, vmap)
            except ve.Undecided as exn:
                res['status'] = 'undecided'
                res['reason'] = 'vacuity variant: ' + str(exn)
        cmd, rc, js, errs, dt, stderr = futs['main'].result()
        vacres = futs['vac'].result() if 'vac' in futs else None
    res['cmd'] = ' '.join(cmd)
    res['verus_s'] = round(dt, 2)
    vr = (js or {}).get('verification-results') if js else None
    if not vr or vr.get('encountered-vir-error') or ('verified' not in vr) or (vr.get('encountered-error') and not vr.get('verified') and not vr.get('errors')):
        res['status'] = 'undecided'
        msgs = [d['message'] for d in errs][:5]
        res['reason'] = 'verus did not reach verification (unsupported construct or type error after the change): ' + ' | '.join(msgs)
        res['stderr'] = stderr[-4000:]
        return res
    res['verified'] = vr['verified']
    res['errors'] = vr['errors']
    try:
        res['smt_ms'] = js['times-ms']['smt']['smt-run']
        res['total_ms'] = js['times-ms']['total']
    except Exception:
        pass
    rsname = os.path.basename(rs)
    allerrs = [(d, lmap, rsname) for d in errs]
    res['case_times_s'] = []
    for j, cmap, crs, fut in casefuts:
        ccmd, crc, cjs, cerrs, cdt, cstderr = fut.result()
        res['case_times_s'].append(round(cdt, 1))
        cvr = (cjs or {}).get('verification-results') if cjs else None
        if not cvr or cvr.get('encountered-vir-error') or ('verified' not in cvr) or (cvr.get('encountered-error') and not cvr.get('verified') and not cvr.get('errors')):
            res['status'] = 'undecided'
            res['reason'] = 'case variant %d did not reach verification: %s' % (j, ' | '.join(d['message'] for d in cerrs[:3]))
            continue
        res['verus_s'] = round(max(res['verus_s'], cdt), 2)
        res['smt_ms'] = (res.get('smt_ms') or 0) + (cjs['times-ms']['smt']['smt-run'] if cjs else 0)
        allerrs += [(d, cmap, os.path.basename(crs)) for d in cerrs]
    seen_ids = set()
    for d, lm_, rn_ in allerrs:
        f = classify(d, lm_, rn_, meta['unit'])
        if f['id'] in seen_ids:
            continue
        seen_ids.add(f['id'])
        if f['kind'] == 'other' and ('rlimit' in f['message'].lower() or 'resource limit' in f['message'].lower()):
            res['status'] = 'undecided'
            res['reason'] = 'resource limit exceeded after retry: ' + f['id']
            continue
        if f['kind'] == 'other':
            # not a verification verdict: a compile-level diagnostic
            res['status'] = 'undecided'
            res['reason'] = 'verus diagnostic that is not a verification verdict: ' + f['message'][:200]
            continue
        res['failures'].append(f)
    # vacuity
    res['vacuity'] = {'probes': 0, 'reachable': 0, 'vacuous': []}
    if vacres:
        vcmd, vrc, vjs, verrs, vdt, vstderr = vacres
        vname = os.path.basename(rs)[:-3] + '_vac.rs'
        want = sorted(set(o['item'] for o in vmap if o.get('k') == 'vac'))
        got = set()
        vvr = (vjs or {}).get('verification-results') if vjs else None
        if not vvr or vvr.get('encountered-vir-error') or (vvr.get('encountered-error') and not vvr.get('verified') and not vvr.get('errors')):
            res['status'] = 'undecided'
            res['reason'] = 'vacuity variant did not verify: ' + ' | '.join(d['message'] for d in verrs[:3])
        else:
            for d in verrs:
                f = classify(d, vmap, vname, meta['unit'])
                if f['vac']:
                    got.add(f['vac_item'])
            res['vacuity'] = {'probes': len(want), 'reachable': len(got), 'vacuous': [w for w in want if w not in got]}
            if res['vacuity']['vacuous']:
                res['status'] = 'undecided'
                res['reason'] = 'vacuous precondition (assert(false) verifies at entry) in: ' + ', '.join(res['vacuity']['vacuous'])
        res['verus_s'] = round(max(dt, vdt), 2)
    res['wall_s'] = round(time.time() - t0, 2)
    return res


def load_known():
    if os.path.exists(KNOWN):
        return json.load(open(KNOWN))
    return {'findings': [], 'fixed': []}


def check_lock(results):
    if not os.path.exists(LOCK):
        return []
    lock = json.load(open(LOCK))
    missing = []
    for r in results:
        if r['status'] != 'ok' and 'labels' not in r:
            continue
        want = lock.get(r['unit'], {})
        for lab in want.get('labels', []):
            if lab not in r.get('labels', {}):
                missing.append('%s::%s' % (r['unit'], lab))
        if r.get('verified', 0) + r.get('errors', 0) < want.get('min_functions', 0):
            missing.append('%s: only %d functions checked, lock says %d' % (r['unit'], r.get('verified', 0) + r.get('errors', 0), want.get('min_functions')))
    return missing


def relock():
    lock = {}
    for p in unit_files():
        r = run_unit(p, with_vac=False)
        if r['status'] != 'ok':
            print('relock: unit %s undecided: %s' % (r['unit'], r['reason']))
            continue
        lock[r['unit']] = {'labels': sorted(r['labels']), 'min_functions': r['verified'] + r['errors']}
    json.dump(lock, open(LOCK, 'w'), indent=1, sort_keys=True)
    print('wrote', LOCK)


def main():
    args = sys.argv[1:]
    if args and args[0] == '--relock':
        return relock()
    prop = args[0]
    tier = os.environ.get('VERIF_TIER', 'quick')
    if '--tier' in args:
        tier = args[args.index('--tier') + 1]
    seed = int(os.environ.get('VERIF_SEED', '0') or 0)
    t0 = time.time()
    import props
    spec = props.PROPS[prop]
    deps = [prop] + spec.get('depends', [])
    units = [p for p in unit_files() if (set(deps) & set(unit_meta(p)['serves'])) and (tier == 'thorough' or unit_meta(p).get('tier', 'quick') == 'quick')]
    if '--replay' in args:
        rp = json.load(open(args[args.index('--replay') + 1]))
        if rp.get('kani'):
            # replay of a Kani counterexample: the recorded values are fed to the same harness body compiled by plain rustc
            import kani_lane
            sys.exit(kani_lane.replay_file(rp))
        units = [p for p in units if unit_meta(p)['unit'] == rp['unit']]
    os.makedirs(OUT, exist_ok=True)
    os.makedirs(EVID, exist_ok=True)
    with cf.ThreadPoolExecutor(max_workers=6) as ex:
        results = list(ex.map(run_unit, units))
    extra = []
    if hasattr(props, 'extra_checks'):
        extra = props.extra_checks(prop, tier, results)
    known = load_known()
    kf = {f['obligation']: f for f in known.get('findings', []) if f['property'] == prop or prop in f.get('also', [])}
    # a finding recorded against a property this one builds on is neither a violation of this property nor reported under its name
    kf_dep = {f['obligation']: f for f in known.get('findings', []) if f['property'] in deps and f['obligation'] not in kf}
    undecided = [r for r in results if r['status'] != 'ok']
    lock_missing = check_lock(results)
    # A function that has a COMPLETE Kani harness (loop-free, full-domain symbolic inputs: a proof, DESIGN 10.1) named in the
    # harness header as `covers=<unit>::<item>` is decided by CBMC when Verus cannot re-prove its contract on changed text
    # (bit-vector or nonlinear reasoning the SMT mode does not do unprompted): such a Verus failure is a proof gap, not a violation.
    proved_by_kani = {}
    for e in extra:
        for h in e.get('harnesses', []):
            if h.get('kind') == 'complete' and h.get('status') == 'pass' and h.get('covers'):
                proved_by_kani[h['covers']] = h['id']
    proof_gaps = []
    violations = []
    knownhits = []
    dephits = []
    n_obl = 0
    n_dis = 0
    samples = []
    fn_under_contract = []
    trusted = []
    unit_stats = []
    for r in results:
        if 'labels' not in r:
            continue
        failing_ids = set()
        # an item whose proof hints (ghost updates, lemma calls) could not be placed because their anchor text is gone has been
        # restructured: its obligations are then checked without the proof, and a failure there says nothing about the code.
        # Such failures are reported as undecided, never as violations.
        lost_items = set(it['id'] for it in r.get('items', []) if any(a.startswith('hint-anchor-lost') for a, _ in it['rules']))
        for f in r['failures']:
            if f.get('item') in lost_items and (set(deps) & set(f['tags'])):
                undecided.append({'unit': r['unit'], 'status': 'undecided',
                                  'reason': 'obligation %s fails, but proof hints of %s lost their anchors (the function was restructured): not decided' % (f['id'], f['item'])})
                continue
            if (set(deps) & set(f['tags'])) and ('%s::%s' % (r['unit'], f.get('item'))) in proved_by_kani:
                hid = proved_by_kani['%s::%s' % (r['unit'], f.get('item'))]
                proof_gaps.append({'obligation': f['id'], 'decided_by': hid})
                print('PROOF-GAP: %s not re-proved by Verus on the current text; the function is decided by the complete harness %s (passed)' % (f['id'], hid))
                continue
            if set(deps) & set(f['tags']):
                failing_ids.add(f['id'])
                if f['id'] in kf:
                    knownhits.append((f, kf[f['id']]))
                elif f['id'] in kf_dep:
                    dephits.append((f, kf_dep[f['id']]))
                else:
                    violations.append((r, f))
        labs = [l for l, tg in r['labels'].items() if set(deps) & set(tg)]
        fns = [it for it in r['items'] if (set(deps) & set(it['tags'])) and it['is_fn']]
        n_obl += len(labs) + len(fns)
        n_dis += len(labs) + len(fns) - min(len(failing_ids), len(labs) + len(fns))
        samples += ['%s::%s' % (r['unit'], l) for l in labs[:4]]
        fn_under_contract += ['%s (%s:%d-%d)' % (it['id'], it['file'], it['line'], it['end_line']) for it in fns]
        trusted += ['%s: %s' % (r['unit'], a) for a in r['assumptions']]
        unit_stats.append({'unit': r['unit'], 'verus_functions_verified': r.get('verified'), 'verus_errors': r.get('errors'),
                           'smt_ms': r.get('smt_ms'), 'verus_wall_s': r.get('verus_s'), 'generated_lines': r.get('n_lines'),
                           'lines_verbatim_from_repo': r.get('n_repo_lines'), 'vacuity': r.get('vacuity'),
                           'rules_applied': sorted(set('%s x%d' % (a, b) for it in r['items'] for a, b in it['rules'])),
                           'cmd': r.get('cmd')})
    for e in extra:
        n_obl += e.get('obligations', 0)
        n_dis += e.get('discharged', 0)
        samples += e.get('samples', [])
        trusted += e.get('trusted', [])
        for v in e.get('violations', []):
            if v['id'] in kf:
                knownhits.append((v, kf[v['id']]))
            elif v['id'] in kf_dep:
                dephits.append((v, kf_dep[v['id']]))
            else:
                violations.append(({'unit': e['name'], 'generated': e.get('artifact')}, v))
        if e.get('undecided'):
            undecided.append({'unit': e['name'], 'reason': e['undecided'], 'status': 'undecided'})
    rc = 0
    for r in results:
        for it in r.get('items', []):
            for a, b in it['rules']:
                if a.startswith('hint-anchor-lost'):
                    print('note: unit %s item %s: %s (run continues without that hint)' % (r['unit'], it['id'], a))
    for f, k in knownhits:
        print('KNOWN-FINDING: property=%s %s [%s]' % (prop, k['what'], f['id']))
    os.makedirs(os.path.join(OUT, 'replay'), exist_ok=True)
    seen = set()
    for r, f in violations:
        if f['id'] in seen:
            continue
        seen.add(f['id'])
        h = hashlib.sha1(f['id'].encode()).hexdigest()[:10]
        rp = os.path.join(OUT, 'replay', '%s-%s.json' % (prop, h))
        witness = f.get('witness')
        json.dump({'property': prop, 'obligation': f['id'], 'unit': r['unit'], 'kind': f['kind'], 'message': f['message'],
                   'repo_location': f.get('where'), 'generated_file': r.get('generated'), 'verifier_output': f.get('rendered'),
                   'witness': witness, 'kani': f.get('kani'),
                   'note': None if witness else 'the verifier gives no model for this obligation; no-failing-input-found'},
                  open(rp, 'w'), indent=1)
        print('failed obligation %s' % f['id'])
        print('  at %s: %s' % (f.get('where'), f['message']))
        print('VIOLATION property=%s replay=%s%s' % (prop, rp, '' if witness else ' no-failing-input-found'))
        rc = 1
    if rc == 0 and (undecided or lock_missing):
        for r in undecided:
            print('UNDECIDED property=%s unit=%s reason=%s' % (prop, r['unit'], r['reason']))
        for m in lock_missing:
            print('UNDECIDED property=%s reason=locked obligation missing: %s' % (prop, m))
        rc = 2
    level = spec.get('level', 'proof')
    if knownhits and level == 'proof':
        level = 'other'
    ev = {
        'property_id': prop, 'tier': tier, 'seed': seed, 'level': level,
        'coverage': {
            'obligations': n_obl, 'discharged': n_dis,
            'checker_cmd': 'verus <unit>.rs --multiple-errors 50 --output-json --time --error-format=json   (one file per unit, regenerated from /repo by tools/vengine.py; Verus %s, bundled z3)' % ve_version(),
            'trusted_base': sorted(set(trusted)) + spec.get('trusted', []),
            'samples': samples[:12] or ['(none)'],
            'explanation': spec.get('explanation', ''),
            'obligation_counting_rule': 'one per labelled contract clause tagged with the property + one per extracted function tagged with it (its implicit safety conditions and unlabelled clauses); discharged = those minus distinct failing obligation ids',
            'functions_under_contract': fn_under_contract,
            'units': unit_stats,
            'verifier_runs': {'executed_now': CACHE['misses'], 'reused_from_cache': CACHE['hits'],
                              'note': 'a verifier run is reused only when the generated file (regenerated from /repo on this run) and the command line are byte-identical to an earlier run; set VERIF_NOCACHE=1 to force re-verification'},
            'extra_checks': [{k: v for k, v in e.items() if k not in ('violations',)} for e in extra],
            'verus_proof_gaps_decided_by_complete_kani_harness': proof_gaps,
            'known_findings_reported': [k['what'] for _, k in knownhits],
            'known_findings_of_properties_this_one_builds_on': ['%s: %s' % (k['property'], k['obligation']) for _, k in dephits],
            'not_decided': spec.get('not_decided', []),
            'builds_on': spec.get('depends', []),
            'bounded': spec.get('bounded', []) + ['%s: %s -- bound: %s -- %s (%s, never counted as proved)' % (h['id'], h['claim'], h['bound'], h['status'], 'exhaustive native enumeration, %s executions' % h.get('executions') if h['kind'] == 'enum' else 'Kani/CBMC')
                                                   for e in extra for h in e.get('harnesses', []) if h['kind'] in ('bounded', 'enum')],
            'undecided': [{'unit': r['unit'], 'reason': r['reason']} for r in undecided],
        },
        'assumptions': spec.get('assumptions', []),
        'wall_s': round(time.time() - t0, 2),
        'violations': len(seen),
    }
    json.dump(ev, open(os.path.join(EVID, prop + '.json'), 'w'), indent=1)
    print('%s tier=%s units=%s obligations=%d discharged=%d known=%d violations=%d wall=%.1fs rc=%d' % (
        prop, tier, ','.join(r['unit'] for r in results), n_obl, n_dis, len(knownhits), len(seen), time.time() - t0, rc))
    sys.exit(rc)


_VV = None


def ve_version():
    global _VV
    if _VV is None:
        try:
            o = subprocess.run(['verus', '--version'], capture_output=True, text=True).stdout
            _VV = re.search(r'Version:\s*(\S+)', o).group(1)
        except Exception:
            _VV = '?'
    return _VV


if __name__ == '__main__':
    main()
