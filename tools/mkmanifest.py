#!/usr/bin/env python3
"""writes MANIFEST.json from tools/props.py + the unit files (kept in one place
so the manifest cannot drift from what the checks do)."""
import json, os, sys, glob, subprocess
HERE = os.path.dirname(os.path.abspath(__file__))
sys.path.insert(0, HERE)
import props, check
VERIF = os.path.dirname(HERE)
allp = [json.loads(l)['id'] for l in open(os.path.join(VERIF, 'properties.jsonl'))]
units = {}
for p in check.unit_files():
    m = check.unit_meta(p)
    for c in m['serves']:
        units.setdefault(c, []).append(m['unit'])
import kani_lane
harness_props = set()
hby = {}
for h in kani_lane.harnesses_for(None):
    for pp in h['props']:
        harness_props.add(pp)
        hby.setdefault(pp, []).append(h)
fix_commits = []
try:
    out = subprocess.run(['git', '-C', '/repo', 'log', '--format=%h %s'], capture_output=True, text=True).stdout
    fix_commits = [l.split()[0] for l in out.split('\n') if l[8:].startswith('fix:') or ' fix:' in l[:14]]
except Exception:
    pass
def harness_note(c):
    deps = [c] + props.PROPS[c].get('depends', [])
    hs = []
    for d in deps:
        for h in hby.get(d, []):
            if h['full'] not in [x['full'] for x in hs]:
                hs.append(h)
    if not hs:
        return ''
    n = {k: sum(1 for h in hs if h['kind'] == k) for k in ('complete', 'bounded', 'enum')}
    return ('; plus harnesses on the real crate: %d complete Kani/CBMC proofs (loop-free, full domain), %d bounded Kani/CBMC harnesses, %d exhaustive '
            'native enumerations (bounded stand-ins, labelled bounded in the evidence, never counted as proved)' % (n['complete'], n['bounded'], n['enum']))


man = {
    'version': 1,
    'setup_cmd': 'true',
    'hooks': {
        'guard': 'none',
        'enable': 'no source hook is needed: contracts are spliced into copies of the functions that tools/vengine.py extracts from /repo on every run, Kani harnesses are appended to a scratch copy of the crate',
        'baseline_off_cmd': 'cd /repo && cargo test --workspace --no-fail-fast --offline',
        'source_commits': fix_commits,
        'add_only': True,
    },
    'engines': [
        {'name': 'verus-units', 'path': 'tools/check.py', 'serves_properties': sorted(units),
         'kind_free_text': 'contract-based deductive verification: functions extracted mechanically from /repo each run (tools/vengine.py), contracts from contracts/*.vrs spliced add-only, discharged by Verus/z3 function by function; vacuity probes; obligation lock'},
        {'name': 'harness-lane', 'path': 'tools/kani_lane.py', 'serves_properties': sorted(harness_props),
         'kind_free_text': 'harness modules kani/*.rs appended to a scratch copy of the crate (never to /repo): kind=complete are loop-free full-domain Kani/CBMC proofs; kind=bounded are Kani/CBMC with a stated bound; kind=enum are the same harness language run natively with every choice enumerated (bounded stand-in for String/Path/iterator code that neither Verus nor CBMC can take); counterexamples are replayed on the real code compiled by plain rustc'},
    ],
    'checks': [],
    'not_applicable': [],
    'notes': 'exit 0 = every obligation tagged with the property discharged (or a listed KNOWN_FINDINGS entry); exit 1 = VIOLATION lines; exit 2 = undecided (lost anchor / construct outside the verified subset / resource limit), never used on the unchanged tree. See DESIGN.md.',
}
for c in allp:
    sp = props.PROPS.get(c)
    if sp and units.get(c) and not sp.get('unclaimed'):
        man['checks'].append({
            'property_id': c,
            'quick_cmd': 'bin/check %s --tier quick' % c,
            'thorough_cmd': 'bin/check %s --tier thorough' % c,
            'evidence_file': '/verif/evidence/%s.json' % c,
            'replay_cmd_template': 'bin/check %s --replay {path}' % c,
            'engine': 'verus-units',
            'level_claimed': {'category': sp.get('level', 'proof'), 'text': sp['explanation'], 'design_ref': 'DESIGN.md section 5/' + c},
            'level_note': '; '.join(sp.get('assumptions', [])) or 'see evidence trusted_base',
            'technique': sp.get('technique', 'contract-based deductive verification (Verus) of the real functions, extracted mechanically each run') + harness_note(c),
        })
    else:
        man['not_applicable'].append({'property_id': c, 'reason': (sp or {}).get('na_reason', 'no check registered yet for this property in this build of the framework (see DESIGN.md section 10 for status)')})
json.dump(man, open(os.path.join(VERIF, 'MANIFEST.json'), 'w'), indent=1)
print('checks:', [c['property_id'] for c in man['checks']])
