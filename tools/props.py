"""Per-property prose for the evidence files: level, assumptions, what is not
decided.  The deciding data (obligations, failures) never comes from here."""

COMMON_TRUST = [
    'Verus 0.2026.09.13 + bundled z3 (soundness of the verifier, machine integers as Verus models them)',
    'extraction rules R0-R16 of DESIGN.md 3.2 (mechanical, newline-preserving; counts per run under coverage.units[].rules_applied)',
]

PROPS = {
    'C01': {
        'level': 'proof',
        'explanation': 'Every combinator of logical_matchers.rs is verified (body verbatim) to compute the reference evaluation eval(ast) of the statement; the builders are verified against group views so that build() yields mk_list(view); has_side_effects == has_action(ast).',
        'assumptions': [
            'primaries are uninterpreted functions prim_sem(id, entry, io); their own semantics is decided by the units of C03/C07-C10/C12-C17',
            'Matcher::into_box (R6) preserves ast(); Iterator::any (R9) is the existential over the vector',
            'impl Matcher for Box<dyn Matcher> (unit boxfwd, four bodies verbatim): matches, has_side_effects, finished_dir and finished have exactly the effect of the boxed matcher (trait.box.*); into_box (returns self) is not extracted (R6)',
        ],
        'not_decided': [],
    },
    'C05': {
        'level': 'proof',
        'explanation': 'WhitespaceDelimitedArgumentReader::next is verified (body verbatim after R2/R7/R3) to return exactly what the reference tokenizer tok() of the statement prescribes on the abstract stream pending++unread, for every sequence of read() results (chunk independence is part of the postcondition), to leave the rest of the stream intact, to err only on an unterminated quote or a failed read, and to terminate; ByteDelimitedArgumentReader::next likewise against btoks() (split at the delimiter only, empty fields skipped).',
        'assumptions': [
            'read(2) contract for Read::read behind the EINTR retry loop (R7) and BufRead::read_until (bytes through the first delimiter, chunk independent)',
            'OsString::from_vec keeps the bytes (unix)',
            'delimiter selection in normalize_options: see unit xopts; parse_delimiter (unit xdelim, body verbatim): an accepted -d operand denotes exactly the byte delim_of gives it (one ASCII character, \\a \\b \\f \\n \\r \\t \\v \\\\, \\xHH, \\0OOO), a rejected one none; the [1..] slices are at character boundaries and the [0] index is in bounds; assumed: str::strip_prefix(char), starts_with(char), u8::from_str_radix (optional +, digits of the radix, at most 255), the UTF-8 boundary theory of prelude/strtheory.rs (a one-byte character is ASCII)',
        ],
        'not_decided': ['the 4096-byte buffer edge and multi-byte characters need no special treatment: the proof is over bytes and arbitrary chunk sizes'],
    },
    'C04': {
        'level': 'proof',
        'explanation': 'process_input (body verbatim) is verified with a ghost log of executed batches: the concatenation of the batches is exactly the sequence of arguments read (history theorem), every batch was accepted argument by argument by the limiter chain starting from the template state (all limits at once, no leakage between batches), each batch is maximal (the argument that opened the next batch was rejected by the chain after the previous one), empty input runs exactly once iff neither -r nor -I, ArgumentTooLarge only when the argument is rejected by a fresh builder; the three limiter try_arg bodies are verified against the abstract Lim view (fits/charge, all-or-nothing, out_of_chars) in unit xlimits.',
        'assumptions': [
            'chain dispatch LimiterCursor::try_next / LimiterCollection::{try_arg, clone} (cyclic dyn, ~25 lines) assumed to be the conjunction over the chain with all-or-nothing update; checked bounded on the three real limiters by the Kani harnesses kani::xargs::k_limiter_chain and k_limiter_charge (every run)',
            'CommandBuilder::execute: contract shared with unit xexec where the real body is verified',
        ],
        'not_decided': ['CommandBuilderOptions::new (initial arguments charged once to the template): adapter chain, see evidence of unit xlimits if present'],
    },
    'C19': {
        'level': 'proof',
        'explanation': 'CommandResult::combine is sticky; process_input folds the outcomes of the executed batches (ghost log): no batch is executed after a fatal outcome because `?` returns, result == fold_out(outcomes); CommandBuilder::execute classifies the exit status by the table of the statement (unit xexec); xargs_main maps outcomes to 0/123/124/125/126/127/1 (unit xexec); the statements of do_xargs that choose the action (unit xaction, verbatim slice): the command words are run exactly as given, whatever the command is called, and the built-in echo stands in only when no command was given.',
        'assumptions': ['ExitStatus::{success, code, signal} consistency on unix (std)', 'the real From impls are one-liners checked against their FromSpecImpl companions (R15)', 'unit mainargs (fn main of src/xargs/main.rs, verbatim): xargs_main is reached with exactly the decoded argument vector, or the process ends with status 1 after a diagnostic; std::env::args() panics on non-Unicode arguments (modelled precondition), args_os()/into_string do not'],
        'not_decided': [],
    },
    'C20': {
        'level': 'proof',
        'explanation': 'In replace mode execute builds argv = command ++ initial arguments with every occurrence of R replaced by the whole line and appends nothing (real body, unit xexec); process_input executes a batch in replace mode only when it holds an argument, and runs nothing on empty input (unit xproc); lines are split at newlines only by the byte reader (unit xread); option normalisation (last of -I/-n/-L wins, -I with -n 1 no conflict, newline delimiter) is decided in unit xopts.',
        'assumptions': ['str::replace replaces every occurrence (std); the map/collect adapter chain of the replace branch is matched textually and replaced by a helper with that contract (R9)',
                        'MaxArgs limiter with max_args = 1 gives one line per invocation (C04 limits proof)'],
        'not_decided': [],
    },
    'C07': {
        'level': 'proof',
        'explanation': 'Printer::print writes exactly lossy(path) followed by the delimiter (unit print); ByteDelimitedArgumentReader::next splits only at NUL and passes every other byte through unchanged (unit xread); execute passes initial ++ extra arguments unchanged to Command::args (unit xexec).  Lemma L-c07 (machine-checked): for non-empty NUL-free strings, splitting p0 NUL p1 NUL ... at NUL yields exactly p0, p1, ... (one argument each, in order).',
        'assumptions': ['Path::to_string_lossy is the identity on valid UTF-8 names (find side)', 'Command::args appends its arguments unchanged', 'the path of an entry is the starting point joined with the names below it (walkdir)'],
        'not_decided': ['names that are not valid UTF-8 are outside the statement (find prints them lossily)'],
    },
    'C14': {
        'level': 'proof',
        'explanation': 'ComparableValue::{matches, imatches} == the N/+N/-N reading of the statement over mathematical integers (all u64/i64), with trichotomy and monotonicity as lemmas; byte_size_to_unit_size == ceil(bytes / unit) for the six units (shifts discharged by bit_vector); Unit::from_str == the suffix table; the two operand parsers return exactly sign/digits(/suffix) of the whole operand, accept every well-formed operand that fits u64 and reject the rest.',
        'assumptions': ['the regex crate implements the two literal operand patterns as their syntax says (contract keyed on the literal text, which the extraction rule matches verbatim)', 'str::parse::<u64> on a non-empty digit string: Ok(value) iff it fits'],
        'not_decided': ['that each numeric primary feeds the right measured value into ComparableValue::matches is decided per primary in units stat/time (C13, C15)'],
    },
    'C15': {
        'level': 'proof',
        'explanation': 'FileTimeMatcher/FileAgeRangeMatcher::matches_impl (bodies verbatim): for non-negative ages the operand is compared with floor(floor((now - t)/1s)/86400) resp. /60 on the timestamp the letter names (get_file_time: a access, c status change, m modification); future timestamps only match -N; NewerMatcher: mtime(entry) > mtime(F) strictly at nanosecond resolution; NewerOptionMatcher::{new, matches_impl}: X(entry) > Y(F) with the letter table of from_str.',
        'assumptions': ['std::time: duration_since is Ok(a-b) iff a >= b else Err carrying b-a; Duration::as_secs is floor; Metadata::{accessed, modified, created} and ChangeTime::changed return the timestamps of the record',
                        'timestamps and the clock are within +-2^61 s of each other (otherwise `as_secs() as i64` wraps)',
                        '`now` is fixed when find starts: Dependencies::now (not extracted); -daystart arithmetic (chrono) not covered',
                        'the entry metadata handed to the time tests is the record the follow mode selects (C13, unit entry)'],
        'not_decided': ['parse_str_to_newer_args (regex) is covered by unit parse/C11'],
    },
    'C13': {
        'level': 'proof',
        'explanation': 'Follow::{follow_at_depth, metadata (all four branches), root_metadata, metadata_at_depth} return exactly rec_for(mode, depth, path): lstat under -P, stat falling back to lstat for a dangling link under -L, stat for starting points only under -H; -type/-perm/-inum/-links/-uid/-gid/-empty read the record the follow mode selects, -xtype the opposite one, -lname is false unless that record is a symbolic link; -perm MODE/-MODE//MODE are the three bit-mask conditions of the statement over the twelve permission bits; none of these tests touches MatcherIO.',
        'assumptions': ['POSIX relations between stat() and lstat() (never a symlink from stat; equal on non-links; lstat failure implies the same stat failure)',
                        'WalkEntry::{get_metadata, metadata, file_type, path_is_symlink} are under contract in unit entry2 (bodies verbatim; the get_or_init closure keeps its body and gets an `ensures` from a rule): the record is what the cache holds, else Follow::metadata_at_depth(path, depth) for an explicit entry and walkdir DirEntry::metadata() for one of walkdir\'s; from_walkdir starts every yielded entry with an empty cache and makes exactly the depth-0 entry under -H/-L explicit. Still assumed: OnceCell::get_or_init (the held value, else the closure\'s), walkdir DirEntry::{metadata, file_type, path_is_symlink} agreeing with the follow mode the walker was configured with (the configuration itself is an obligation of unit walk), and that unit entry\'s interface (entry_iface.rs: metadata() == rec_for(follow, depth, path)) is the composition of the two',
                        'uucore::mode::parse_numeric / parse_symbolic (so that symbolic and octal spellings agree is assumed, not proved)', 'nix user/group lookup for -user/-group/-nouser/-nogroup', 'uucore FileInformation for -samefile'],
        'not_decided': ['-samefile, -nouser, -nogroup: dependency calls only, no contract within reach', 'symbolic == octal mode spelling (uucore)'],
    },
    'C12': {
        'level': 'proof',
        'explanation': "glob_to_regex (body verbatim, real String/Chars) returns exactly tr(pattern), the structural translation written from the statement and POSIX: '?' -> '.', '*' -> '.*', a quoted or ordinary character -> itself with the BRE specials escaped, a bracket expression copied, an unmatched '[' literal, a lone trailing backslash -> no pattern (never matches), no other character special; Pattern::{new, matches} pass the caseless flag through and decide by a whole-string match; the bracket scanner extract_bracket_expr is verified panic-free and terminating for every pattern, returning a proper suffix (unit globscan).",
        'assumptions': ["onig's posix_basic syntax implements POSIX BRE (dot matches newline), accepts every translated glob, and Regex::is_match decides whole-string membership for these alternation-free patterns (argument in DESIGN section 6)",
                        'extract_bracket_expr is a pure function of its argument (in unit glob it is the uninterpreted function `bracket`; bounds proved in unit globscan)',
                        'which text each primary hands to Pattern::matches is decided in unit globsubj for -name/-iname (NameMatcher::{new, matches}: the pattern compiled as given, the last path component as printed, "/" for a root spelled with several slashes) and -path/-ipath (PathMatcher::{new, matches}: the whole path as printed), and in unit entry for -lname; assumed there: WalkEntry::file_name is the last component, to_string_lossy is the text -print shows, `len() > 1 && chars().all(== /)` is the only-slashes test (R9 helpers)'],
        'not_decided': ['validity of a bracket expression (parse_bre, onig)', "D21: backslash inside a bracket expression differs from glibc fnmatch ('[\\]]'), outside the statement's well-formed bracket expressions"],
    },
    'C16': {
        'level': 'other',
        'explanation': 'FormatStringParser (every function, bodies verbatim after R5/R9/R11) parses exactly what the reference parser fparse() of the statement prescribes (escape table incl. \\NNN, %%, blank/- flags, minimum width, the thirty directive letters, time conversions), errs exactly on the invalid formats, never panics and terminates; Printf::print writes literals verbatim and each directive value padded with blanks to the minimum width on the left by default and on the right with -, never truncated, nothing appended, stopping at a directive that fails; the value arms %d %s %n %i %U %G %m %p %l %y %Y of format_directive, cut out of the real match arm by arm, print the decimal field / twelve permission bits / the -print text / the link target when the entry itself is a link and nothing otherwise / the -type resp. -xtype letter of the record the follow mode selects.',
        'assumptions': ['std::fmt: Display of integers is decimal, {:>03o} is zero-padded octal, {:<w$}/{:>w$} pad a str with blanks to w chars and never truncate (R4)',
                        'UTF-8 theory of R11 (char widths 1..4, 1 for ASCII); str::{find, get, slicing}, char::from_u32, u32::from_str_radix, str::parse::<usize> as specified in the unit',
                        'chrono StrftimeItems validity of a time conversion character is an uninterpreted predicate (same on both sides)',
                        'WalkEntry::{metadata, file_type, follow, path_is_symlink, depth, path} as in unit entry'],
        'not_decided': ['%f %h %H %P (std::path component algebra; the statement\'s "%H as given" and "%H/%P recompose %p" conflict for a starting point spelled dir/)', 'time directives (chrono), %u %g (name lookup), %b %k %S %D %F %M', 'an unknown directive letter %X is rendered as X (the statement is silent)'],
    },
    'C11': {
        'level': 'other',
        'explanation': 'Panic freedom and termination for every argument vector of the parsing code that Verus verifies on the real text: build_matcher_tree (whole function after the R10 skeleton rule: every index, subtraction, unreachable!, the -exec scan loop, the ( recursion), are_more_expressions, the -printf format parser, the glob bracket scanner, the numeric operand parsers, Unit::from_str, type parse; rejection: Ok from build_matcher_tree implies the token sequence is a sentence of the reference grammar fold_from (operators never follow operators or !, no empty or unbalanced parentheses, every primary has its operands).',
        'assumptions': ['constructors of the primaries replaced by verif_prim (R10): their own panics are outside this unit (Printf::new, glob Pattern::new and the operand parsers are covered by units printfparse, glob/globscan, numeric)', 'argument vectors are shorter than usize::MAX/2', 'dependencies (onig, regex, chrono, uucore, walkdir, clap) do not panic',
                        'unit mainargs (fn main of src/find/main.rs, verbatim): std::env::args() panics on an argument that is not valid Unicode (its modelled precondition), args_os() never does; OsString::into_string is Ok(the decoded text) iff the bytes are valid UTF-8; find_main is reached with exactly the decoded argument vector, in order, or the process ends with status 1 after a diagnostic'],
        'not_decided': ['parse_args, do_find, find_main ordering (unit walk)', "run-time I/O errors of actions (out.flush().unwrap())", '-newerXY accepts leading garbage (known finding D20)'],
    },
    'C09': {
        'level': 'proof',
        'explanation': 'SingleExecMatcher::matches (body verbatim after R9 on std::path calls): the child is started with argv = executable followed by every template argument with each {} replaced by the path (./basename under -execdir) and all other text unchanged, one argv element per argument, in the parent directory under -execdir; the action is true exactly when the child exits with status 0; MatcherIO (find\'s exit status, prune, quit) is untouched.',
        'assumptions': ['std::process::Command: arg appends one element, current_dir sets the directory, status() runs exactly that command line without a shell', 'std::path file_name/parent/join as uninterpreted functions of the path bytes',
                        'SingleExecMatcher::new (unit execnew, body verbatim: the closure of the map/collect chain keeps its body and gets an `ensures` from a rule): one template per argument, in order - an argument without {} unchanged, otherwise its pieces around every {} as str::split yields them - the executable and the -execdir flag kept; assumed: str::split("{}") (the pieces between successive occurrences, left to right), OsString::from(&str), and that args.iter().map(F).collect() yields F of each element in order'],
        'not_decided': ['that the action is evaluated once per file at that point of the evaluation is C01 (units logic/parse/walk)'],
    },
    'C10': {
        'level': 'other',
        'explanation': 'DeleteMatcher::delete removes exactly the entry\'s own path: rmdir() for a directory that is not a symbolic link (rmdir fails unless it is empty), unlink() for everything else, a symbolic link included (never its target); matches: "." is left alone and true, success is true, a failure is false with exit code 1 and neither quits nor prunes; -delete forces -depth in the parser (unit parse) so the order and selection are those of -depth EXPR -print (C03/C01 obligations).',
        'assumptions': ['std::fs::remove_dir/remove_file are rmdir(2)/unlink(2) on exactly the given path', 'frame: the only mutating calls in delete.rs are these two (checked textually by the extraction rules, which match them one to one)'],
        'not_decided': [],
    },
    'C02': {
        'level': 'other',
        'explanation': 'process_dir (body verbatim): the walker is configured from Config exactly (contents_first, max_depth, min_depth clamped by walkdir and re-imposed by a depth filter, same_file_system, follow_links iff -L, follow_root_links iff not -P, sorted); every item the walker yields that is (or, for a broken link, becomes) an entry at depth >= mindepth is evaluated exactly once, in order; an Err item sets the exit status to non-zero and the loop goes on; the status is never reset; termination relative to a finite walk; parse_args sets the follow mode from -P/-H/-L; build_matcher_tree writes -maxdepth/-mindepth/-follow into Config (unit parse).',
        'assumptions': ['walkdir (transcribed from its source): yields each in-range entry once for the configuration it ends up with, reports loops and unreadable entries as Err items, never descends links unless told', 'WalkEntry::from_walkdir turns a not-found error whose path lstats into an entry (entry.rs:221-257, not extracted: closures over walkdir types)'],
        'not_decided': ['completeness and duplicate-freedom of the walk itself, cycle diagnosis, behaviour on a file system that changes during the walk'],
    },
    'C03': {
        'level': 'other',
        'explanation': 'contents_first == depth_first (process_dir), -depth/-d and -delete set depth_first (build_matcher_tree against the reference grammar), PruneMatcher marks exactly directories and is always true, skip_current_dir is called iff the mark is set after that entry and the walk is in pre-order (its precondition: in contents-first order walkdir would pop the parent listing), -sorted installs the byte-wise file-name comparator.',
        'assumptions': ['walkdir: pre/post order, skip_current_dir pops the directory just yielded (pre-order), sort_by orders siblings'],
        'not_decided': ['that the complete visit sequence is the reference DFS: walkdir'],
    },
    'C18': {
        'level': 'proof',
        'explanation': 'parse_args: the starting points are the maximal run of operands after the leading -H/-L/-P/-O flags, in order, each string unchanged, "." when there is none; do_find walks them one after another in that order, each exactly once, keeps the exit status non-zero once a starting point failed and goes on, stops only for -quit; process_dir hands the string unchanged to WalkDir::new.; parse_files0_args (unit files0, body verbatim): on success config.new_paths is replaced by exactly the names of the NUL-separated list read from stdin ("-") or the named file - in order, exactly one final empty field dropped (a final NUL adds no name), empty names and nothing else skipped - and no other Config field changes; a source that cannot be opened or read is an Err',
        'assumptions': ['walkdir prefixes every reported path with the root exactly as given', 'unit files0 (parse_files0_args, body verbatim): the five iterator/closure chains (slice::split at NUL + collect, last().is_some_and(is_empty), filter_map(from_utf8().ok()).map(to_string).collect, iter().any(is_empty), retain(!is_empty)), Option::insert, Vec::extend, read_to_end and File::open().map_err() are replaced by helpers keyed on their literal text whose contracts state what std documents for them (assumed); what is proved is their composition against names_of(bytes of the source)'],
        'not_decided': ['-files0-from: a name that is not valid UTF-8 is dropped without a diagnostic (operands are &str, so it could not be a starting point of this find in any case): outside the statement; that the empty-name diagnostic is printed exactly when a name is empty is not stated as an obligation'],
    },
    'C08': {
        'level': 'proof',
        'explanation': 'MultiExecMatcher (real bodies, the RefCell as an opaque cell with per-call transition obligations, R8): matches is always true and puts the path (./basename under -execdir) into exactly one invocation, after the paths already collected: (batches dispatched by the call) ++ (batch still pending) == (pending before) ++ [path]; a batch is dispatched early only when argmax refuses the path, unchanged, under -execdir from the entry\'s directory; run_command turns find\'s exit status non-zero when an invocation fails or cannot start and never resets it; finished_dir flushes and empties an -execdir batch from that directory, finished the -exec batch; process_dir calls finished_dir before leaving a directory and both hooks after the loop, also after -quit, and offers each entry while current_dir is its parent (unit walk); the -exec arm of the parser recognises `{} +` and the single-{} rule (unit parse).',
        'assumptions': ['argmax::Command::try_arg (Ok: appended and still within the limits it computes; Err: unchanged) and that its accounting implies acceptance by execve', 'MultiExecMatcher::new (unit execnew, body verbatim): the fixed arguments are the arguments as given, byte for byte and in order, the executable and the -execdir flag kept, no batch pending at the start; assumed: OsString::from(&str), map/collect in order', 'RefCell: the value persists between calls and no second borrow is live (syntactic: nothing called while the guard lives reaches self.command)', 'std::path file_name/parent/join uninterpreted'],
        'not_decided': ['OS acceptance of a batch (argmax), process spawning'],
    },
    'C17': {
        'level': 'other',
        'explanation': 'RegexType::from_str is the name table of the statement (emacs default, grep, posix-basic, posix-extended, ed and sed as posix-basic); RegexMatcher::new compiles the pattern in the syntax the type names with the ignore-case flag for -iregex; build_matcher_tree gives every -regex the type set by the nearest preceding -regextype, also across parentheses (reference grammar threads rt); matches hands the whole path as -print shows it to the engine and a reported match is a member of the language (never a prefix or substring). Completeness for patterns with alternation does not hold (known finding D12), hence level other.',
        'assumptions': ["onig: Regex::with_options compiles the pattern in the given syntax; is_match accepts only whole-text matches (soundness); its result is otherwise an uninterpreted function of (pattern, flag, syntax, text)"],
        'not_decided': ['language membership itself (onig)'],
    },
    'C06': {
        'level': 'other',
        'explanation': 'new_system (real body) computes the budget max(0, ARG_MAX - 2048 - environment) without underflow; the limiter installation statements of do_xargs (cut out verbatim) always add the system limiter, last, after the optional -n/-L/-s limiters; the chars limiter charges len+1 per argument (unit xlimits); an accepted batch leaves the POSIX headroom (lemma). That an accepted batch is accepted by execve is NOT provable against the kernel model (pointer overhead, 6 MiB cap, MAX_ARG_STRLEN): two known findings, hence level other.',
        'assumptions': ['kernel model transcribed from Linux fs/exec.c (bprm_stack_limits, MAX_ARG_STRLEN = 32 pages) and glibc sysconf(_SC_ARG_MAX) = max(128 KiB, RLIMIT_STACK/4)', 'the limiter chain semantics (units xlimits, xproc)'],
        'not_decided': [],
    },
}
# a property whose statement presupposes another mechanism also runs that mechanism's obligations:
# a change that breaks the walk or the expression semantics breaks "-delete removes exactly the matched entries" too
DEPENDS = {
    'C10': ['C01', 'C02', 'C03'],   # same set and order as -depth EXPR -print
    'C09': ['C01'],                 # "once for each file on which the action is reached, at that point of the evaluation"
    'C08': ['C01'],
    'C03': ['C02', 'C01'],          # visit order presupposes the configured walk; the prune mark travels from -prune to the walk through the combinators, which must leave it alone (seed C03-13)
    'C18': ['C02'],
    'C07': ['C05', 'C04', 'C18'],          # xargs -0 splitting; "delivers every matched path exactly once" presupposes the batching and its cost model
    'C20': ['C05'],
    'C06': ['C04'],
    'C04': ['C05'],                 # "nothing lost, duplicated, merged or split" end to end: the input argument sequence is what the reader yields (seed C04-12: an empty quoted argument at end of input dropped by the reader)
    'C19': ['C05'],                 # "unterminated quote ... give exit status 1": the reader decides what is unterminated
}
for pid, d in DEPENDS.items():
    PROPS[pid]['depends'] = d
for k in PROPS.values():
    k.setdefault('trusted', [])
    k['trusted'] = COMMON_TRUST + k['trusted']


def extra_checks(prop, tier, results):
    """second lane (tools/kani_lane.py): Kani harnesses over the real crate for the property and the ones it builds on.
    complete harnesses (loop-free, full-domain symbolic inputs) count as obligations discharged by CBMC;
    bounded ones are reported under 'bounded' with their bound and are never counted as proved."""
    import kani_lane
    deps = [prop] + PROPS[prop].get('depends', [])
    hs = []
    seen = set()
    for d in deps:
        for h in kani_lane.harnesses_for(d):
            if h['full'] not in seen and (tier == 'thorough' or h.get('tier', 'quick') == 'quick'):
                seen.add(h['full'])
                hs.append(h)
    if not hs:
        return []
    res = kani_lane.run_harnesses(hs, tier)
    out = []
    byunit = {}
    for r in res:
        byunit.setdefault(r['unit'], []).append(r)
    for unit, rs in sorted(byunit.items()):
        e = {'name': 'kani:' + unit, 'backend': '%s / CBMC' % kani_lane.kani_version(), 'obligations': 0, 'discharged': 0,
             'samples': [], 'violations': [], 'harnesses': [], 'trusted': [], 'artifact': 'kani/%s.rs' % unit}
        und = []
        for r in rs:
            hid = '%s::%s::%s' % ('enum' if r['kind'] == 'enum' else 'kani', unit, r['harness'].split('::')[-1])
            e['harnesses'].append({'id': hid, 'harness': r['harness'], 'kind': r['kind'], 'bound': r.get('bound') or None, 'claim': r.get('label'),
                                   'covers': r.get('covers'), 'status': r['status'], 'cbmc_time_s': r.get('time'), 'executions': r.get('executions'), 'cached': r.get('cached'), 'cmd': r.get('cmd')})
            if r['kind'] == 'enum' and r['status'] == 'pass' and not r.get('executions'):
                und.append('%s: no execution recorded' % hid)
            if r['kind'] == 'complete':
                e['obligations'] += 1
                if r['status'] == 'pass':
                    e['discharged'] += 1
                    e['samples'].append(hid)
            if r['status'] == 'fail':
                rep = r.get('replay') or {}
                wit = None
                if r.get('concrete_vals') is not None and rep.get('reproduced'):
                    wit = {('enumeration_choices' if r['kind'] == 'enum' else 'kani_concrete_values'): r['concrete_vals'], 'replayed_on_real_code': True, 'replay_cmd': rep.get('cmd'), 'replay_output': rep.get('output')}
                e['violations'].append({'id': hid, 'kind': 'kani-' + r['kind'], 'tags': r['props'],
                                        'message': '%s: %s' % (r.get('label'), '; '.join(r.get('failed_checks') or [])),
                                        'where': r['harness'], 'rendered': json_dumps_short(r), 'witness': wit,
                                        'kani': {'harness': r['harness'], 'unit': unit, 'concrete_vals': r.get('concrete_vals')}})
            elif r['status'] != 'pass':
                und.append('%s: %s' % (hid, r.get('reason', 'no verdict')))
        if und:
            e['undecided'] = ' ; '.join(und)
        e['trusted'].append('kani:%s: (CBMC harnesses) CBMC bit-precise model of the Rust code as compiled by Kani (MIR -> goto); std modelled by Kani; stub operands and sinks defined in kani/%s.rs; termination not checked' % (unit, unit))
        out.append(e)
    return out


def json_dumps_short(r):
    import json as _j
    return _j.dumps({k: r.get(k) for k in ('harness', 'status', 'failed_checks', 'concrete_vals', 'replay', 'cmd', 'playback_cmd')}, indent=1)
