"""Per-property prose for the evidence files: level, assumptions, what is not
decided.  The deciding data (obligations, failures) never comes from here."""

COMMON_TRUST = [
    'Verus 0.2026.09.13 + bundled z3 (soundness of the verifier, machine integers as Verus models them)',
    'extraction rules R0-R16 of DESIGN.md 3.2 (mechanical, newline-preserving; counts per run under coverage.units[].rules_applied)',
]

PROPS = {
    'C01': {
        'level': 'proof',
        'explanation': 'Every combinator of logical_matchers.rs is verified (body verbatim) to compute the reference evaluation eval(ast) of the statement; the builders are verified against group views so that build() yields mk_list(view); has_side_effects == has_action(ast).',
        'assumptions': [
            'primaries are uninterpreted functions prim_sem(id, entry, io); their own semantics is decided by the units of C03/C07-C10/C12-C17',
            'Matcher::into_box (R6) preserves ast(); Iterator::any (R9) is the existential over the vector',
            'impl Matcher for Box<dyn Matcher> forwards to the boxed value (5 one-line methods, not extracted)',
        ],
        'not_decided': [],
    },
}
for k in PROPS.values():
    k.setdefault('trusted', [])
    k['trusted'] = COMMON_TRUST + k['trusted']
