#!/usr/bin/env python3
"""Run the registered checks against the seeded changes in /verif/seeded/<id>/.

For each seed: /repo must be clean; `git -C /repo apply patch.diff`; run `bin/check <property>` (evidence redirected to
out/seed-evidence so the committed evidence is not overwritten); `git -C /repo checkout -- .`; record the outcome in
seeded/<id>/result.json and print one line.   usage: tools/seedrun.py [id ...] [--tier quick|thorough]
"""
import json, os, re, subprocess, sys, time
ROOT = os.path.dirname(os.path.dirname(os.path.abspath(__file__)))
REPO = '/repo'


def main():
    args = sys.argv[1:]
    tier = 'quick'
    if '--tier' in args:
        i = args.index('--tier')
        tier = args[i + 1]
        del args[i:i + 2]
    sub = 'seeded'
    if '--dir' in args:     # e.g. --dir harmless: behaviour-preserving changes, where a VIOLATION would be a false alarm
        i = args.index('--dir')
        sub = args[i + 1]
        del args[i:i + 2]
    ids = args or sorted(os.listdir(os.path.join(ROOT, sub)))
    st = subprocess.run(['git', '-C', REPO, 'status', '--porcelain', '--untracked-files=no'], capture_output=True, text=True).stdout.strip()
    if st:
        print('refusing: /repo has local changes:\n' + st)
        return 2
    env = dict(os.environ)
    env['VERIF_EVIDENCE_DIR'] = os.path.join(ROOT, 'out', 'seed-evidence')
    summary = []
    for sid in ids:
        d = os.path.join(ROOT, sub, sid)
        pf = os.path.join(d, 'patch.diff')
        if not os.path.exists(pf):
            continue
        meta = json.load(open(os.path.join(d, 'meta.json')))
        prop = meta['property']
        a = subprocess.run(['git', '-C', REPO, 'apply', pf], capture_output=True, text=True)
        if a.returncode != 0:
            print('%s PATCH-DOES-NOT-APPLY %s' % (sid, a.stderr.strip()[:200]))
            summary.append((sid, 'noapply'))
            continue
        t0 = time.time()
        try:
            p = subprocess.run([os.path.join(ROOT, 'bin', 'check'), prop, '--tier', tier], capture_output=True, text=True, env=env)
            out, rc = p.stdout + p.stderr, p.returncode
        finally:
            subprocess.run(['git', '-C', REPO, 'checkout', '--', '.'])
        viol = [l for l in out.splitlines() if l.startswith('VIOLATION')]
        failed = [l.split(' ', 2)[2] for l in out.splitlines() if l.startswith('failed obligation ')]
        und = [l for l in out.splitlines() if l.startswith('UNDECIDED')]
        verdict = ({0: 'quiet', 1: 'FALSE-ALARM', 2: 'undecided'} if sub == 'harmless' else {0: 'missed', 1: 'caught', 2: 'undecided'}).get(rc, 'error')
        res = {'seed': sid, 'property': prop, 'tier': tier, 'check_rc': rc, 'verdict': verdict, 'failed_obligations': failed,
               'violation_lines': viol, 'undecided_lines': [u[:400] for u in und], 'wall_s': round(time.time() - t0, 1),
               'repo_head': subprocess.run(['git', '-C', REPO, 'rev-parse', '--short', 'HEAD'], capture_output=True, text=True).stdout.strip()}
        json.dump(res, open(os.path.join(d, 'result.json'), 'w'), indent=1)
        print('%s rc=%d %s %s' % (sid, rc, verdict, (failed[:2] or [u[:160] for u in und[:1]])), flush=True)
        summary.append((sid, verdict))
    from collections import Counter
    print(Counter(v for _, v in summary))
    return 0


if __name__ == '__main__':
    sys.exit(main())
