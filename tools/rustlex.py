"""Minimal Rust lexing helpers: a code mask (what is not comment/string/char
literal), brace matching and item location by brace matching.  Used by the
extractor; it never re-prints code, it only computes offsets into the real
text of /repo."""
import re


def code_mask(t):
    """bytearray m with m[i]==1 iff t[i] is code (not in a comment, string,
    raw string, byte string or char literal)."""
    n = len(t)
    m = bytearray(b"\x01") * n
    i = 0
    while i < n:
        c = t[i]
        if c == '/' and i + 1 < n and t[i + 1] == '/':
            j = t.find('\n', i)
            if j < 0:
                j = n
            for k in range(i, j):
                m[k] = 0
            i = j
        elif c == '/' and i + 1 < n and t[i + 1] == '*':
            depth = 1
            j = i + 2
            while j < n and depth > 0:
                if t.startswith('/*', j):
                    depth += 1
                    j += 2
                elif t.startswith('*/', j):
                    depth -= 1
                    j += 2
                else:
                    j += 1
            for k in range(i, j):
                m[k] = 0
            i = j
        elif c == '"' or (c in 'br' and _str_start(t, i)):
            j = _skip_string(t, i)
            for k in range(i, j):
                m[k] = 0
            i = j
        elif c == "'":
            j = _skip_char(t, i)
            if j > i + 1:
                for k in range(i, j):
                    m[k] = 0
                i = j
            else:
                i += 1  # lifetime
        else:
            i += 1
    return m


def _str_start(t, i):
    # b"..", r"..", r#".."#, br".."  (only when not part of an identifier)
    if i > 0 and (t[i - 1].isalnum() or t[i - 1] == '_'):
        return False
    mm = re.match(r'(b?r#*"|b")', t[i:i + 12])
    return mm is not None


def _skip_string(t, i):
    n = len(t)
    mm = re.match(r'(b?)(r?)(#*)"', t[i:i + 12])
    raw = mm.group(2) == 'r'
    hashes = mm.group(3)
    j = i + mm.end()
    if raw:
        end = '"' + hashes
        k = t.find(end, j)
        return n if k < 0 else k + len(end)
    while j < n:
        if t[j] == '\\':
            j += 2
        elif t[j] == '"':
            return j + 1
        else:
            j += 1
    return n


def _skip_char(t, i):
    # returns end offset of a char literal starting at i, or i+1 if lifetime
    n = len(t)
    if i + 1 >= n:
        return i + 1
    if t[i + 1] == '\\':
        j = i + 2
        # escape: \n, \', \x41, \u{...}
        if j < n and t[j] == 'u':
            k = t.find('}', j)
            j = k + 1
        elif j < n and t[j] == 'x':
            j += 3
        else:
            j += 1
        if j < n and t[j] == "'":
            return j + 1
        return i + 1
    # 'x' : one char then quote
    if i + 2 < n and t[i + 2] == "'" and t[i + 1] != "'":
        return i + 3
    return i + 1


OPEN = {'{': '}', '(': ')', '[': ']'}
CLOSE = {'}', ')', ']'}


def match_close(t, m, pos):
    """pos is the offset of an opening bracket in code; returns the offset of
    its matching closer."""
    want = []
    i = pos
    n = len(t)
    while i < n:
        if m[i]:
            c = t[i]
            if c in OPEN:
                want.append(OPEN[c])
            elif c in CLOSE:
                if not want or want[-1] != c:
                    raise ValueError('unbalanced at %d' % i)
                want.pop()
                if not want:
                    return i
        i += 1
    raise ValueError('no closer for %d' % pos)


def depth_map(t, m):
    """brace depth ({} only) before each offset."""
    d = 0
    out = [0] * (len(t) + 1)
    for i, c in enumerate(t):
        out[i] = d
        if m[i]:
            if c == '{':
                d += 1
            elif c == '}':
                d -= 1
    out[len(t)] = d
    return out


def find_code(t, m, regex, start=0, end=None):
    """iterate regex matches whose first char is code."""
    if end is None:
        end = len(t)
    for mm in re.finditer(regex, t[:end]):
        if mm.start() < start:
            continue
        if m[mm.start()]:
            yield mm


def first_code_char(t, m, ch, start, end=None):
    """offset of first occurrence of ch at bracket depth 0 (relative to start)
    in code."""
    if end is None:
        end = len(t)
    want = []
    i = start
    while i < end:
        if m[i]:
            c = t[i]
            if c == ch and not want:
                return i
            if c in OPEN:
                want.append(OPEN[c])
            elif c in CLOSE and want and want[-1] == c:
                want.pop()
        i += 1
    return -1


MODS = r'(?:pub(?:\s*\([^)]*\))?\s+)?(?:default\s+)?(?:const\s+)?(?:async\s+)?(?:unsafe\s+)?(?:extern\s+"[^"]*"\s+)?'


def _item_start(t, kwpos):
    """extend backwards from the keyword over visibility/modifiers on the same
    logical position (only whitespace and modifiers in between)."""
    # look back up to 60 chars for modifiers
    lo = max(0, kwpos - 80)
    seg = t[lo:kwpos]
    mm = re.search(r'(' + MODS + r')$', seg)
    if mm:
        return lo + mm.start(1)
    return kwpos


def _item_end(t, m, kwpos):
    """end (exclusive) of item starting at kwpos: the matching '}' of the
    first top-level '{', or the first ';' if it comes first."""
    b = first_code_char(t, m, '{', kwpos)
    s = first_code_char(t, m, ';', kwpos)
    if b < 0 and s < 0:
        raise ValueError('item has no end')
    if b >= 0 and (s < 0 or b < s):
        e = match_close(t, m, b) + 1
        return e
    return s + 1


def arm_end(t, m, j):
    """end (exclusive) of a match-arm body starting at j: up to the ',' at
    depth 0 (exclusive), or the end of a block body (with a trailing method
    chain)"""
    i = j
    n = len(t)
    while i < n:
        if not m[i]:
            i += 1
            continue
        c = t[i]
        if c == ',':
            return i
        if c in ')]}':
            return i
        if c in '([':
            i = match_close(t, m, i) + 1
            continue
        if c == '{':
            i = match_close(t, m, i) + 1
            k = i
            while k < n and (t[k].isspace() or not m[k]):
                k += 1
            if k < n and (t[k] in '.?' or t.startswith('else', k)):
                i = k
                continue
            return i
        i += 1
    return n


def norm_ws(s):
    return re.sub(r'\s+', ' ', s).strip()


def find_item(t, m, selector, dm=None):
    """selector forms:
         fn:NAME                      free fn at module level
         struct:NAME enum:NAME trait:NAME const:NAME type:NAME static:NAME
         impl:HEADER                  whole impl block; HEADER is the text
                                      between `impl` and `{`, whitespace
                                      normalised (generics included)
         method:HEADER:NAME           fn NAME inside that impl block
         traitfn:TRAIT:NAME           fn NAME inside `trait TRAIT {}`
       returns (start, end) offsets (end exclusive)."""
    if dm is None:
        dm = depth_map(t, m)
    ordinal = None
    mo = re.search(r'#(\d+)$', selector)
    if mo:
        ordinal = int(mo.group(1))
        selector = selector[:mo.start()]
    kind = selector.split(':', 1)[0]
    if kind == 'slice':
        # slice:<inner selector>@@<start regex>@@<end regex>  -> the statements from the line where START matches to the
        # end of the line where END matches (verbatim consecutive statements of that item)
        inner, rs_, re_ = selector[len('slice:'):].split('@@', 2)
        s0, e0 = find_item(t, m, inner, dm)
        a = [mm for mm in re.compile(rs_).finditer(t, s0, e0) if m[mm.start()]]
        if len(a) != 1:
            raise LookupError('%s: %d start matches' % (selector, len(a)))
        excl = re_.startswith('<')      # `<RE`: the slice ends with the line BEFORE the one where RE matches
        if excl:
            re_ = re_[1:]
        b = [mm for mm in re.compile(re_).finditer(t, a[0].end(), e0) if m[mm.start()]]
        if len(b) < 1:
            raise LookupError('%s: no end match' % selector)
        st = t.rfind('\n', 0, a[0].start()) + 1
        if excl:
            return st, t.rfind('\n', 0, b[0].start())
        en = t.find('\n', b[0].end())
        return st, (en if en >= 0 else e0)
    if kind == 'arm':
        # arm:<inner selector>@@<regex ending in =>>  -> the body expression of that match arm
        inner, rx = selector[len('arm:'):].split('@@', 1)
        s0, e0 = find_item(t, m, inner, dm)
        hits = [mm for mm in re.compile(rx).finditer(t, s0, e0) if m[mm.start()]]
        if ordinal is not None and ordinal <= len(hits):
            hits = [hits[ordinal - 1]]
        if len(hits) != 1:
            raise LookupError('%s: %d arms match' % (selector, len(hits)))
        i = hits[0].end()
        while t[i].isspace():
            i += 1
        return i, arm_end(t, m, i)
    if kind == 'method':
        hdr, nm = selector[len('method:'):].rsplit(':', 1)
        parts = ['method', hdr, nm]
    elif kind == 'impl':
        parts = ['impl', selector[len('impl:'):]]
    else:
        parts = selector.split(':')
    if kind in ('fn', 'struct', 'enum', 'trait', 'const', 'type', 'static', 'mod'):
        name = parts[1]
        kw = kind
        hits = []
        for mm in find_code(t, m, r'\b%s\s+%s\b' % (kw, re.escape(name))):
            if dm[mm.start()] == 0:
                hits.append(mm.start())
        if ordinal is not None and ordinal <= len(hits):
            hits = [hits[ordinal - 1]]
        if len(hits) != 1:
            raise LookupError('%s: %d matches' % (selector, len(hits)))
        s = _item_start(t, hits[0])
        return s, _item_end(t, m, hits[0])
    if kind in ('impl', 'method'):
        header = norm_ws(parts[1])
        hits = []
        for mm in find_code(t, m, r'\bimpl\b'):
            if dm[mm.start()] != 0:
                continue
            b = first_code_char(t, m, '{', mm.end())
            h = norm_ws(t[mm.end():b])
            if h == header:
                hits.append((mm.start(), b))
        if len(hits) != 1:
            raise LookupError('%s: %d impl blocks match header %r' % (selector, len(hits), header))
        istart, b = hits[0]
        iend = match_close(t, m, b) + 1
        if kind == 'impl':
            return istart, iend
        name = parts[2]
        fh = []
        for mm in find_code(t, m, r'\bfn\s+%s\b' % re.escape(name), b, iend):
            if dm[mm.start()] == 1:
                fh.append(mm.start())
        if ordinal is not None and ordinal <= len(fh):
            fh = [fh[ordinal - 1]]
        if len(fh) != 1:
            raise LookupError('%s: %d fns match' % (selector, len(fh)))
        return _item_start(t, fh[0]), _item_end(t, m, fh[0])
    if kind == 'nested':
        # item at any depth, must be unique in the file: nested:enum:Escape
        kw, name = parts[1], parts[2]
        hits = [mm.start() for mm in find_code(t, m, r'\b%s\s+%s\b' % (kw, re.escape(name)))]
        if len(hits) != 1:
            raise LookupError('%s: %d matches' % (selector, len(hits)))
        return _item_start(t, hits[0]), _item_end(t, m, hits[0])
    if kind == 'traitfn':
        ts, te = find_item(t, m, 'trait:' + parts[1], dm)
        fh = []
        for mm in find_code(t, m, r'\bfn\s+%s\b' % re.escape(parts[2]), ts, te):
            if dm[mm.start()] == 1:
                fh.append(mm.start())
        if len(fh) != 1:
            raise LookupError('%s: %d fns match' % (selector, len(fh)))
        return _item_start(t, fh[0]), _item_end(t, m, fh[0])
    raise LookupError('bad selector ' + selector)


LOOP_RE = r'\b(for|while|loop)\b'


def find_loops(t, m):
    """offsets (kw_start, body_open_brace) of loops in t, in textual order.
    `for` in `impl X for Y` / HRTB never occurs inside fn bodies we extract;
    a `for` not followed by ` ... in ` before the body brace is skipped."""
    out = []
    for mm in find_code(t, m, LOOP_RE):
        kw = mm.group(1)
        b = first_code_char(t, m, '{', mm.end())
        if b < 0:
            continue
        if kw == 'for':
            hdr = t[mm.end():b]
            if not re.search(r'\bin\b', hdr):
                continue
        if kw == 'loop' and norm_ws(t[mm.end():b]) != '':
            continue
        # label like 'outer: before loop is not included
        out.append((mm.start(), b, kw))
    return out


def line_of(t, off):
    return t.count('\n', 0, off) + 1
