"""Extraction + contract splicing engine (Verus lane).

A unit file (contracts/<unit>.vrs) is Verus text with `//@` directives.  The
engine re-reads /repo on every run, cuts the named items out of the real
source by brace matching, applies the unit's declared mechanical rewrite rules
(all newline-preserving, so generated line k of an item is repo line
start+k), splices the contract clauses (add-only) and writes out/<unit>.rs with
a line map back to /repo or to the unit file.

Directives
  //@ unit NAME
  //@ serves C01 C02 ...
  //@ tags C01 ...                  default tags of following literal text
  //@ include REL/PATH              literal include (relative to contracts/)
  //@ modelops GROUP                `broadcast use GROUP;` at the start of every extracted fn body and loop body
  //@ extract FILE SELECTOR         start of an extract block (see rustlex.find_item)
  //@   id LABEL                    name used in obligation ids (default from selector)
  //@   tags C01 ...                properties whose obligations this item carries
  //@   rule ret NAME               `-> T` becomes `-> (NAME: T)`
  //@   rule sub <<RE>> => <<REPL>> [count=N|count=*] [flags=s]
  //@   rule macro NAME => <<REPL>> [count=N|count=*] [unchecked]
  //@   rule mut_self               R16
  //@   rule iter K NAME            K-th loop `for p in e` -> `for p in NAME: e`
  //@   rule pubfields | drop_attrs | cfg_drop <<pred>> | cfg_strip <<pred>>
  //@   rule sig <<RE>> => <<REPL>> substitution restricted to the signature
  //@   contract                    following lines go before the body `{`
  //@   loop K                      following lines go before the K-th loop body
  //@   hint before|after <<RE>> [K]   following lines go before/after the line
  //@                                  holding the K-th code match of RE
  //@   hint start                  following lines go right after the body `{`
  //@   novac                       no vacuity probe for this item
  //@ end
A clause line may end in `//# label [tags]`; the label covers the lines back to
the previous label (or block start).
"""
import json
import os
import re
import sys

sys.path.insert(0, os.path.dirname(os.path.abspath(__file__)))
import rustlex as rl

VERIF = os.path.dirname(os.path.dirname(os.path.abspath(__file__)))
REPO = os.environ.get('VERIF_REPO', '/repo')
CONTRACTS = os.path.join(VERIF, 'contracts')


class Undecided(Exception):
    """lost anchor / unsupported construct: exit 2, never an alarm"""


def _parse_delim(s):
    """parse '<<A>> => <<B>> k=v ...' pieces; returns list of <<>> payloads and
    the trailing option dict."""
    payloads = re.findall(r'<<(.*?)>>(?!>)', s)
    rest = re.sub(r'<<.*?>>(?!>)', '', s).replace('=>', ' ')
    opts = {}
    for tok in rest.split():
        if '=' in tok:
            k, v = tok.split('=', 1)
            opts[k] = v
        else:
            opts[tok] = True
    return payloads, opts


class Item:
    def __init__(self, unit, file, selector, uline):
        self.unit = unit
        self.file = file
        self.selector = selector
        self.uline = uline
        self.id = selector.split(':', 1)[1].replace('Matcher for ', '').replace(':', '::')
        self.tags = []
        self.rules = []
        self.blocks = []  # (kind, arg, [(text, uline)])
        self.novac = False
        self.rule_counts = []


def parse_unit(path):
    """returns list of nodes: ('lit', text, uline, tags, srcfile) | ('item', Item)"""
    nodes = []
    meta = {'unit': os.path.basename(path).rsplit('.', 1)[0], 'serves': [], 'path': path}
    _parse_file(path, nodes, meta, [])
    return meta, nodes


def _parse_file(path, nodes, meta, deftags):
    lines = open(path).read().split('\n')
    cur = None
    curblock = None
    tags = list(deftags)
    for ln, line in enumerate(lines, 1):
        s = line.strip()
        if s.startswith('//@'):
            d = s[3:].strip()
            if not d:
                continue
            word = d.split()[0]
            arg = d[len(word):].strip()
            if word == 'insert':
                ipath = os.path.join(CONTRACTS, arg)
                for iln, il in enumerate(open(ipath).read().split('\n'), 1):
                    if cur is None:
                        nodes.append(('lit', il, iln, tags, ipath))
                    elif curblock is not None:
                        curblock[2].append((il, ln))
                continue
            if cur is None:
                if word == 'unit':
                    meta['unit'] = arg
                elif word == 'serves':
                    meta['serves'] = arg.split()
                elif word == 'tags':
                    tags = arg.split()
                elif word in ('rlimit', 'tier', 'modelops'):
                    meta[word] = arg
                elif word == 'include':
                    _parse_file(os.path.join(CONTRACTS, arg), nodes, meta, tags)
                elif word == 'extract':
                    alt = None
                    if ' else ' in arg:
                        arg, altarg = arg.split(' else ', 1)
                        alt = tuple(altarg.split(None, 1))
                    f, sel = arg.split(None, 1)
                    cur = Item(meta['unit'], f, sel.strip(), ln)
                    cur.alt = alt
                    cur.modelops = meta.get('modelops')
                    cur.tags = list(tags)
                    cur.upath = path
                    curblock = None
                else:
                    raise SystemExit('%s:%d: unknown directive %s' % (path, ln, word))
            else:
                if word == 'end':
                    nodes.append(('item', cur))
                    cur = None
                    curblock = None
                elif word == 'id':
                    cur.id = arg
                elif word == 'tags':
                    cur.tags = arg.split()
                elif word == 'rule':
                    cur.rules.append((arg, ln))
                elif word == 'novac':
                    cur.novac = True
                elif word == 'vac':
                    cur.force_vac = True
                elif word in ('contract', 'loop', 'hint', 'split'):
                    curblock = (word, arg, [])
                    cur.blocks.append(curblock)
                else:
                    raise SystemExit('%s:%d: unknown directive %s' % (path, ln, word))
        else:
            if cur is None:
                nodes.append(('lit', line, ln, tags, path))
            else:
                if curblock is None:
                    if s:
                        raise SystemExit('%s:%d: text outside a block in extract' % (path, ln))
                else:
                    curblock[2].append((line, ln))
    if cur is not None:
        raise SystemExit('%s: unterminated extract' % path)


def _pad_sub(text, start, end, repl):
    removed = text.count('\n', start, end)
    added = repl.count('\n')
    if added > removed:
        raise SystemExit('replacement adds lines: %r' % repl)
    return text[:start] + repl + '\n' * (removed - added) + text[end:]


def _apply_sub(text, regex, repl, opts, what, lo=0, hi=None):
    flags = re.M
    if 's' in str(opts.get('flags', '')):
        flags |= re.S
    want = opts.get('count', '1')
    n = 0
    pos = lo
    while True:
        m = rl.code_mask(text)
        lim = len(text) if hi is None else hi
        mm = None
        for cand in re.compile(regex, flags).finditer(text, pos, lim):
            st = cand.start()
            if m[st] or (text[st] in '"r' and (st == 0 or m[st - 1]) and cand.group(0)[:1] in '"r'):
                mm = cand
                break
        if mm is None:
            break
        r = mm.expand(repl)
        newtext = _pad_sub(text, mm.start(), mm.end(), r)
        if hi is not None:
            hi += len(newtext) - len(text)
        pos = mm.start() + len(r) + (mm.group(0).count('\n') - r.count('\n'))
        if pos <= mm.start() and len(mm.group(0)) == 0:
            pos = mm.start() + 1
        text = newtext
        n += 1
    if want == '*':
        pass
    elif want.endswith('+'):
        if n < int(want[:-1]):
            raise Undecided('rule %s: matched %d times, unit requires %s' % (what, n, want))
    elif n != int(want):
        raise Undecided('rule %s: matched %d times, unit requires %s' % (what, n, want))
    return text, n


DIAG_FORBID = re.compile(r'\?|\bunwrap\b|\bexpect\b|\[|\bpanic\b')


def _apply_macro(text, name, repl, opts, what):
    want = opts.get('count', '*')
    n = 0
    pos = 0
    while True:
        m = rl.code_mask(text)
        mm = None
        for cand in re.compile(r'\b%s!\s*[\(\[\{]' % re.escape(name)).finditer(text, pos):
            if m[cand.start()]:
                mm = cand
                break
        if mm is None:
            break
        op = mm.end() - 1
        cl = rl.match_close(text, m, op)
        args = ''.join(ch for k, ch in enumerate(text[op + 1:cl]) if m[op + 1 + k])
        if 'unchecked' not in opts and DIAG_FORBID.search(args):
            raise Undecided('rule %s: macro argument contains a possibly-failing expression: %s' % (what, rl.norm_ws(args)[:80]))
        text = _pad_sub(text, mm.start(), cl + 1, repl)
        pos = mm.start() + len(repl)
        n += 1
    if want != '*' and not want.endswith('+') and n != int(want):
        raise Undecided('rule %s: matched %d times, unit requires %s' % (what, n, want))
    if want.endswith('+') and n < int(want[:-1]):
        raise Undecided('rule %s: matched %d times, unit requires %s' % (what, n, want))
    return text, n


def _apply_call(text, name, repl, opts, what):
    """replace the call expression NAME(<balanced>) by repl"""
    want = opts.get('count', '1')
    n = 0
    pos = 0
    while True:
        m = rl.code_mask(text)
        mm = None
        for cand in re.compile(r'(?<![\w:])%s\s*\(' % re.escape(name)).finditer(text, pos):
            if m[cand.start()]:
                mm = cand
                break
        if mm is None:
            break
        op = mm.end() - 1
        cl = rl.match_close(text, m, op)
        args = ''.join(ch for k, ch in enumerate(text[op + 1:cl]) if m[op + 1 + k])
        # macros inside are diagnostics text; strip `format!(...)` wrappers before the check
        r2 = repl
        if 'keepidx' in opts:
            idx = _idx_exprs(args)
            r2 = repl.replace('()', '((' + ''.join(e + ', ' for e in idx) + '))', 1)
            rest = args
            for e in idx:
                rest = rl.norm_ws(rest).replace(e, '')
            if DIAG_FORBID.search(re.sub(r'\b\w+!\s*\(', '(', rest)):
                raise Undecided('rule %s: call argument contains a possibly-failing expression: %s' % (what, rl.norm_ws(args)[:80]))
        elif 'unchecked' not in opts and DIAG_FORBID.search(re.sub(r'\b\w+!\s*\(', '(', args)):
            raise Undecided('rule %s: call argument contains a possibly-failing expression: %s' % (what, rl.norm_ws(args)[:80]))
        text = _pad_sub(text, mm.start(), cl + 1, r2)
        pos = mm.start() + len(r2)
        n += 1
    if want == '*':
        pass
    elif want.endswith('+'):
        if n < int(want[:-1]):
            raise Undecided('rule %s: matched %d times, unit requires %s' % (what, n, want))
    elif n != int(want):
        raise Undecided('rule %s: matched %d times, unit requires %s' % (what, n, want))
    return text, n


def _idx_exprs(expr, var='(?:args|exec_args)'):
    """all `args[...]` index sub-expressions of expr (balanced)"""
    out = []
    m = rl.code_mask(expr)
    for mm in re.finditer(r'\b%s\[' % var, expr):
        if not m[mm.start()]:
            continue
        cl = rl.match_close(expr, m, mm.end() - 1)
        st = mm.start()
        if st > 0 and expr[st - 1] == '&':
            st -= 1
        e = rl.norm_ws(expr[st:cl + 1])
        if e not in out:
            out.append(e)
    return out


def _apply_prim(text, what):
    """R10: matcher-constructor expressions -> verif_prim(label, i, (index exprs))"""
    n = 0
    labels = []
    pos = 0
    while True:
        m = rl.code_mask(text)
        mm = None
        for cand in re.finditer(r'\bSome\(', text[pos:]):
            if m[pos + cand.start()]:
                mm = cand
                break
        if mm is None:
            break
        st = pos + mm.start()
        op = pos + mm.end() - 1
        cl = rl.match_close(text, m, op)
        inner = ''.join(ch if m[op + 1 + k] else ' ' for k, ch in enumerate(text[op + 1:cl]))
        t = inner.strip().rstrip(',').strip()
        if not t.endswith('.into_box()'):
            pos = op + 1
            continue
        expr = t[:-len('.into_box()')].rstrip()
        fallible = expr.endswith('?')
        if fallible:
            expr = expr[:-1].rstrip()
        lab = re.match(r'[A-Za-z_][\w:]*', expr)
        if not lab:
            raise Undecided('rule %s: cannot label constructor %r' % (what, expr[:60]))
        label = lab.group(0)
        idx = _idx_exprs(expr)
        tup = '(' + ''.join(e + ', ' for e in idx) + ')'
        if label in ('matcher', 'sub_matcher'):
            repl = 'Some(%s)' % label
        elif label.startswith('RegexMatcher'):
            ci = 'true' if re.search(r',\s*true\s*\)$', expr) else 'false'
            rt = re.search(r'RegexMatcher::new\(\s*([^,]+),', expr).group(1).strip()
            repl = 'Some(verif_prim_regex(%s, %s, i, %s)?)' % (rt, ci, tup)
        elif fallible:
            repl = 'Some(verif_prim_try("%s", i, %s)?)' % (label, tup)
        else:
            repl = 'Some(verif_prim("%s", i, %s))' % (label, tup)
        labels.append(label)
        text = _pad_sub(text, st, cl + 1, repl)
        pos = st + len(repl)
        n += 1
    # `let matcher = <constructor chain>;`
    pos = 0
    while True:
        m = rl.code_mask(text)
        mm = None
        for cand in re.finditer(r'\blet matcher = ', text[pos:]):
            if m[pos + cand.start()]:
                mm = cand
                break
        if mm is None:
            break
        st = pos + mm.start()
        semi = rl.first_code_char(text, m, ';', st)
        expr = text[st + len('let matcher = '):semi]
        lab = re.match(r'\s*([A-Za-z_][\w:]*)', expr).group(1)
        idx = _idx_exprs(expr)
        tup = '(' + ''.join(e + ', ' for e in idx) + ')'
        repl = 'let matcher = verif_prim_try("%s", i, %s)?' % (lab, tup)
        labels.append(lab)
        text = _pad_sub(text, st, semi, repl)
        pos = st + len(repl)
        n += 1
    return text, n, labels


def _body_open(text, m, kind_fn=True):
    """offset of the body `{` of a fn item text (or of ';' for a bodiless
    trait fn)."""
    fnpos = None
    for mm in rl.find_code(text, m, r'\bfn\b'):
        fnpos = mm.start()
        break
    if fnpos is None:
        return None
    p = rl.first_code_char(text, m, '(', fnpos)
    pc = rl.match_close(text, m, p)
    b = rl.first_code_char(text, m, '{', pc)
    s = rl.first_code_char(text, m, ';', pc)
    if b < 0 or (0 <= s < b):
        return s
    return b


def _thing_end(text, m, j):
    """end (exclusive) of the item / statement / match arm / tail expression
    that starts at j"""
    i = j
    n = len(text)
    while i < n:
        if not m[i]:
            i += 1
            continue
        c = text[i]
        if c in ';,':
            return i + 1
        if c in ')]}':
            return i
        if c in '([':
            i = rl.match_close(text, m, i) + 1
            continue
        if c == '{':
            i = rl.match_close(text, m, i) + 1
            k = i
            while k < n and text[k].isspace():
                k += 1
            if k < n and text[k] == ',':
                return k + 1
            if k < n and (text[k] in '.?' or text.startswith('else', k)):
                continue
            return i
        i += 1
    return n


def _cfg_drop(text, pred, strip_only, what):
    n = 0
    while True:
        m = rl.code_mask(text)
        mm = None
        for cand in re.compile(r'#\[cfg\(\s*%s\s*\)\]' % re.escape(pred)).finditer(text):
            if m[cand.start()]:
                mm = cand
                break
        if mm is None:
            break
        if strip_only:
            text = _pad_sub(text, mm.start(), mm.end(), '')
        else:
            # drop the attribute and the item/statement/arm that follows
            j = mm.end()
            # skip further attributes
            while True:
                k = j
                while k < len(text) and text[k].isspace():
                    k += 1
                if text.startswith('#[', k):
                    k2 = rl.match_close(text, m, k + 1)
                    j = k2 + 1
                else:
                    break
            e = _thing_end(text, m, j)
            text = _pad_sub(text, mm.start(), e, '')
        n += 1
    if n == 0:
        raise Undecided('rule %s: no match' % what)
    return text, n


def render_item(item, repo=None, vac=False, variant=None):
    """returns list of (line, origin)"""
    repo = repo or REPO
    path = os.path.join(repo, item.file)
    try:
        src = open(path).read()
    except OSError:
        raise Undecided('%s: file missing' % item.file)
    m = rl.code_mask(src)
    try:
        s, e = rl.find_item(src, m, item.selector)
        item.used_alt = False
    except (LookupError, ValueError) as ex:
        if getattr(item, 'alt', None) and '0 fns match' in str(ex):
            # the impl does not define the method: the trait's default body applies (Rust semantics)
            path = os.path.join(repo, item.alt[0])
            item.file = item.alt[0]
            src = open(path).read()
            m = rl.code_mask(src)
            try:
                s, e = rl.find_item(src, m, item.alt[1].strip())
            except (LookupError, ValueError) as ex2:
                raise Undecided('lost anchor %s %s: %s' % (item.alt[0], item.alt[1], ex2))
            item.used_alt = True
        else:
            raise Undecided('lost anchor %s %s: %s' % (item.file, item.selector, ex))
    start_line = rl.line_of(src, s)
    item.repo_line = start_line
    item.repo_end_line = rl.line_of(src, e)
    text = src[s:e]
    item.rule_counts = []
    for rule, uln in item.rules:
        word = rule.split()[0]
        arg = rule[len(word):].strip()
        what = '%s:%d `%s`' % (os.path.basename(item.upath), uln, rule[:60])
        if word == 'ret':
            mk = rl.code_mask(text)
            b = _body_open(text, mk)
            fnpos = next(rl.find_code(text, mk, r'\bfn\b')).start()
            p = rl.first_code_char(text, mk, '(', fnpos)
            pc = rl.match_close(text, mk, p)
            sig = text[pc:b]
            mm = re.match(r'(\)\s*->\s*)(.*?)(\s*(?:where\b.*)?)$', sig, re.S)
            if not mm:
                raise Undecided('rule %s: no return type' % what)
            text = text[:pc] + mm.group(1) + '(' + arg + ': ' + mm.group(2) + ')' + mm.group(3) + text[b:]
            item.rule_counts.append(('R13-ret', 1))
        elif word == 'sub':
            pl, opts = _parse_delim(arg)
            text, n = _apply_sub(text, pl[0], pl[1], opts, what)
            item.rule_counts.append((opts.get('r', 'sub') + ' ' + pl[0][:40], n))
        elif word == 'sig':
            pl, opts = _parse_delim(arg)
            mk = rl.code_mask(text)
            b = _body_open(text, mk)
            text, n = _apply_sub(text, pl[0], pl[1], opts, what, 0, b)
            item.rule_counts.append(('sig ' + pl[0][:40], n))
        elif word == 'macro':
            pl, opts = _parse_delim(arg)
            name = [k for k in re.sub(r'<<.*?>>(?!>)', '', arg).replace('=>', ' ').split() if '=' not in k and k != 'unchecked'][0]
            text, n = _apply_macro(text, name, pl[0], opts, what)
            item.rule_counts.append(('R3 ' + name + '!', n))
        elif word == 'call':
            pl, opts = _parse_delim(arg)
            name = [k for k in re.sub(r'<<.*?>>(?!>)', '', arg).replace('=>', ' ').split() if '=' not in k and k != 'unchecked'][0]
            text, n = _apply_call(text, name, pl[0], opts, what)
            item.rule_counts.append(('call ' + name, n))
        elif word == 'prim':
            text, n, labels = _apply_prim(text, what)
            item.rule_counts.append(('R10 prim', n))
            item.prim_labels = labels
        elif word == 'okloop':
            # `Ok(loop { ... break V; ... })` as the tail expression of a fn
            # -> `loop { ... return Ok(V); ... }` (Verus has no `break value`)
            mk = rl.code_mask(text)
            mm = next(rl.find_code(text, mk, r'\bOk\(\s*loop\s*\{'), None)
            if mm is None:
                raise Undecided('rule %s: no `Ok(loop {`' % what)
            op = mm.start() + 2
            cl = rl.match_close(text, mk, op)
            lb = mm.end() - 1
            lcl = rl.match_close(text, mk, lb)
            if rl.norm_ws(text[lcl + 1:cl]) != '':
                raise Undecided('rule %s: loop is not the whole argument of Ok' % what)
            inner = text[lb + 1:lcl]
            mi = rl.code_mask(inner)
            out = []
            last = 0
            n = 0
            for bm in re.finditer(r'\bbreak\s+(?=[^;\s])', inner):
                if not mi[bm.start()]:
                    continue
                semi = rl.first_code_char(inner, mi, ';', bm.end())
                out.append(inner[last:bm.start()])
                out.append('return Ok(' + inner[bm.end():semi] + ')')
                last = semi
                n += 1
            out.append(inner[last:])
            text = text[:mm.start()] + 'loop {' + ''.join(out) + '}' + text[cl + 1:]
            item.rule_counts.append(('R7b okloop break-value->return', n))
        elif word == 'mut_self':
            mk = rl.code_mask(text)
            b = _body_open(text, mk)
            sig = text[:b]
            if not re.search(r'\(\s*mut\s+self\b', sig):
                raise Undecided('rule %s: no `mut self`' % what)
            sig = re.sub(r'\(\s*mut\s+self\b', '(self', sig, count=1)
            body = text[b + 1:]
            mb = rl.code_mask(body)
            out = []
            last = 0
            for mm in re.finditer(r'\bself\b', body):
                if mb[mm.start()]:
                    out.append(body[last:mm.start()])
                    out.append('this')
                    last = mm.end()
            out.append(body[last:])
            text = sig + '{ let mut this = self;' + ''.join(out)
            item.rule_counts.append(('R16 mut_self', 1))
        elif word == 'iter':
            k, name = arg.split()
            mk = rl.code_mask(text)
            loops = rl.find_loops(text, mk)
            if int(k) > len(loops) or loops[int(k) - 1][2] != 'for':
                raise Undecided('rule %s: loop %s is not a for loop' % (what, k))
            kw, b, _ = loops[int(k) - 1]
            hdr = text[kw:b]
            mm = re.search(r'\bin\b', hdr)
            text = text[:kw + mm.end()] + ' ' + name + ':' + text[kw + mm.end():]
            item.rule_counts.append(('iter-name', 1))
        elif word == 'pub':
            if not re.match(r'pub\b', text):
                text = 'pub ' + text
            item.rule_counts.append(('R13 pub', 1))
        elif word == 'pubfields':
            if not re.match(r'pub\b', text):
                text = 'pub ' + text
            mk = rl.code_mask(text)
            dm = rl.depth_map(text, mk)
            out = []
            last = 0
            n = 0
            for mm in re.finditer(r'(?m)^(\s*)(?!pub\b)([A-Za-z_]\w*\s*:)', text):
                if mk[mm.start(2)] and dm[mm.start(2)] == 1:
                    out.append(text[last:mm.start(2)])
                    out.append('pub ')
                    last = mm.start(2)
                    n += 1
            out.append(text[last:])
            text = ''.join(out)
            item.rule_counts.append(('R13 pubfields', n))
        elif word == 'drop_attrs':
            n = 0
            while True:
                mk = rl.code_mask(text)
                mm = None
                for cand in re.finditer(r'#\[', text):
                    if mk[cand.start()]:
                        mm = cand
                        break
                if mm is None:
                    break
                cl = rl.match_close(text, mk, mm.start() + 1)
                text = _pad_sub(text, mm.start(), cl + 1, '')
                n += 1
            item.rule_counts.append(('R13 drop_attrs', n))
        elif word in ('cfg_drop', 'cfg_strip'):
            pl, opts = _parse_delim(arg)
            text, n = _cfg_drop(text, pl[0], word == 'cfg_strip', what)
            item.rule_counts.append(('R1 ' + word + ' ' + pl[0], n))
        else:
            raise SystemExit('unknown rule ' + rule)
    # ---- splices
    mk = rl.code_mask(text)
    inserts = []  # (offset, order, lines[(text, origin)])
    order = 0
    body_open = _body_open(text, mk) if re.search(r'\bfn\b', text) else None
    loops = None
    mo = getattr(item, 'modelops', None)
    if mo and body_open is not None and text[body_open] == '{' and re.match(r'\s*(pub(\([^)]*\))?\s+)?fn\b', text):
        # //@ modelops GROUP: the unit's axioms about operators of modelled std types (==, <, clone ...) are in scope in every
        # extracted function body and loop body, so that a change which starts to use such an operator is decided, not unconstrained
        org = {'k': 'spl', 'item': item.id, 'uline': item.uline, 'upath': item.upath, 'tags': item.tags, 'label': None, 'unit': item.unit, 'file': item.file}
        inserts.append((body_open + 1, -1, [('broadcast use %s;' % mo, org)]))
        for lp in rl.find_loops(text, mk):
            if text[lp[1]] == '{':
                inserts.append((lp[1] + 1, -1, [('broadcast use %s;' % mo, dict(org))]))
    for kind, arg, blines in item.blocks:
        order += 1
        lab = _label_lines(blines, item)
        if kind == 'contract':
            if body_open is None:
                raise Undecided('contract on non-fn item %s' % item.id)
            inserts.append((body_open, order, lab))
        elif kind == 'loop':
            if loops is None:
                loops = rl.find_loops(text, mk)
            k = int(arg.split()[0])
            if k > len(loops):
                raise Undecided('lost anchor: %s has %d loops, contract is keyed on loop %d' % (item.id, len(loops), k))
            inserts.append((loops[k - 1][1], order, lab))
        elif kind == 'split':
            # case split (sound proof by cases): variant 0 proves the cases exhaustive and stops there,
            # variant j assumes case j; the unit verifies iff every variant does
            pl, opts = _parse_delim(arg)
            hits = [mm for mm in re.compile(pl[0], re.M).finditer(text) if mk[mm.start()]]
            if len(hits) < 1:
                raise Undecided('lost anchor of case split in %s' % item.id)
            off = text.rfind('\n', 0, hits[0].start()) + 1
            cases = []
            for ltxt, uln in blines:
                if ':' in ltxt and ltxt.strip() and not ltxt.strip().startswith('//'):
                    nm, cond = ltxt.split(':', 1)
                    cases.append((nm.strip(), cond.strip(), uln))
            conds = [c for _, c, _ in cases if c != '*']
            allc = ' || '.join('(%s)' % c for c in conds)
            full = [(n, (c if c != '*' else '!(%s)' % allc), u) for n, c, u in cases]
            item.split_cases = [n for n, _, _ in full]
            if variant is None or variant == 0:
                org = {'k': 'spl', 'item': item.id, 'uline': blines[0][1] if blines else 0, 'upath': item.upath, 'tags': item.tags,
                       'label': 'split.exhaustive', 'unit': item.unit, 'file': item.file}
                ex = ' || '.join('(%s)' % c for _, c, _ in full)
                lines_ = [('assert(%s); // the cases of the split are exhaustive' % ex, org),
                          ('assume(false); // case-split: the rest of this path is proved in the case variants', dict(org, label=None))]
            else:
                n_, c_, u_ = full[variant - 1]
                org = {'k': 'spl', 'item': item.id, 'uline': u_, 'upath': item.upath, 'tags': item.tags, 'label': None, 'unit': item.unit, 'file': item.file}
                lines_ = [('assume(%s); // case-split: case %s (exhaustiveness proved in variant 0)' % (c_, n_), org)]
            inserts.append((off, order, lines_))
        elif kind == 'hint':
            w = arg.split()[0]
            if w == 'start':
                inserts.append((body_open + 1, order, lab))
                continue
            pl, opts = _parse_delim(arg[len(w):])
            k = 1
            rest = re.sub(r'<<.*?>>(?!>)', '', arg[len(w):]).split()
            if rest:
                k = int(rest[0])
            hits = [mm for mm in re.compile(pl[0], re.M).finditer(text) if mk[mm.start()]]
            if len(hits) < k:
                # a lost hint anchor is not fatal (DESIGN 3.1): run without it
                item.rule_counts.append(('hint-anchor-lost ' + pl[0][:40], 0))
                continue
            mm = hits[k - 1]
            if w == 'before':
                off = text.rfind('\n', 0, mm.start()) + 1
            else:
                off = text.find('\n', mm.end())
                off = len(text) if off < 0 else off + 1
            inserts.append((off, order, lab))
        else:
            raise SystemExit('bad block ' + kind)
    if vac and body_open is not None and not item.novac and text[body_open] == '{':
        has_req = any(kind == 'contract' and any(re.search(r'\brequires\b', l) for l, _ in bl) for kind, _, bl in item.blocks)
        if has_req or getattr(item, 'force_vac', False):
            inserts.append((body_open + 1, 10 ** 6, [('assert(false); // vacuity probe', {'k': 'vac', 'item': item.id, 'tags': item.tags, 'unit': item.unit})]))
    inserts.sort(key=lambda x: (x[0], x[1]))
    out = []
    pos = 0
    line = start_line

    def emit_repo(seg):
        nonlocal line
        parts = seg.split('\n')
        for i, p in enumerate(parts):
            if i > 0:
                line += 1
            yield p, i

    pending = ''
    for off, _, lab in inserts + [(len(text), 0, None)]:
        seg = text[pos:off]
        parts = seg.split('\n')
        for i, p in enumerate(parts):
            if i > 0:
                out.append((pending, _repo_origin(item, line)))
                pending = ''
                line += 1
            pending += p
        pos = off
        if lab is not None:
            if pending.strip():
                out.append((pending, _repo_origin(item, line)))
            pending = ''
            out.extend(lab)
    if pending.strip() or True:
        out.append((pending, _repo_origin(item, line)))
    return out


def _repo_origin(item, line):
    return {'k': 'repo', 'file': item.file, 'line': line, 'item': item.id, 'tags': item.tags, 'unit': item.unit}


def _label_lines(blines, item):
    """attach labels: a `//# label tags` comment covers lines back to the
    previous label."""
    res = []
    pend = []
    for text, uln in blines:
        mm = re.search(r'//#\s*(\S+)((?:\s+C\d\d)*)\s*$', text)
        org = {'k': 'spl', 'item': item.id, 'uline': uln, 'upath': item.upath, 'tags': item.tags, 'label': None, 'unit': item.unit,
               'file': item.file}
        pend.append((text, org))
        if mm:
            tags = mm.group(2).split() or item.tags
            for _, o in pend:
                o['label'] = mm.group(1)
                o['tags'] = tags
            res.extend(pend)
            pend = []
    res.extend(pend)
    return res


def generate(unit_path, repo=None, vac=False, variant=None):
    meta, nodes = parse_unit(unit_path)
    lines = []
    items = []
    for node in nodes:
        if node[0] == 'lit':
            _, text, uln, tags, srcfile = node
            lines.append((text, {'k': 'unit', 'uline': uln, 'upath': srcfile, 'tags': tags, 'unit': meta['unit']}))
        else:
            it = node[1]
            rendered = render_item(it, repo, vac, variant)
            lines.extend(rendered)
            items.append(it)
    # literal-text labels: `//# label tags` on literal lines; the label also covers the preceding lines of a
    # multi-line clause, back to the line that starts it (assert / ensures / requires / invariant / decreases)
    for idx, (text, org) in enumerate(lines):
        if org['k'] != 'unit':
            continue
        mm = re.search(r'//#\s*(\S+)((?:\s+C\d\d)*)\s*$', text)
        if not mm:
            continue
        j = idx
        while True:
            o = lines[j][1]
            if o['k'] != 'unit' or (j != idx and o.get('label')):
                break
            o['label'] = mm.group(1)
            if mm.group(2).split():
                o['tags'] = mm.group(2).split()
            if re.search(r'\b(assert|ensures|requires|invariant|invariant_except_break|decreases)\b', lines[j][0].split('//#')[0]) or idx - j >= 8 or j == 0:
                break
            j -= 1
    return meta, lines, items


def write_generated(unit_path, outdir, repo=None, vac=False, variant=None):
    meta, lines, items = generate(unit_path, repo, vac, variant)
    name = meta['unit'] + ('_vac' if vac else '') + ('' if variant is None else '_case%d' % variant)
    os.makedirs(outdir, exist_ok=True)
    rs = os.path.join(outdir, name + '.rs')
    with open(rs, 'w') as f:
        f.write('\n'.join(t for t, _ in lines) + '\n')
    with open(os.path.join(outdir, name + '.map.json'), 'w') as f:
        json.dump([o for _, o in lines], f)
    return meta, lines, items, rs


if __name__ == '__main__':
    meta, lines, items, rs = write_generated(sys.argv[1], os.path.join(VERIF, 'out'), vac='--vac' in sys.argv)
    print(rs, len(lines), 'lines', len(items), 'items')
