#!/usr/bin/env python3
"""Second lane: Kani harnesses over the real crate (DESIGN 4).

Harness modules live in /verif/kani/*.rs.  Each is appended, unchanged, to the source file named in its
`//@ append` line inside a scratch copy of /repo's working tree (never inside /repo), so it sees the
private items of that file through `use super::*`.  Nothing in the copied sources is edited.

  //@ kani NAME
  //@ append src/find/matchers/logical_matchers.rs
  //@ module verif_kani_logic                 (the module the file declares)
  //@ harness k_or kind=bounded props=C01,C10 bound=<<3 operands>> label=<<...>>
  //@ harness k_cmp kind=complete props=C14 label=<<...>>

kind=complete : loop-free harness over full-domain symbolic inputs (a proof of the stated claim)
kind=bounded  : bounded stand-in; the bound is reported and the result never counts as proved

A failing harness is re-run with concrete playback; the values are replayed against the real code compiled by
plain rustc (cfg verif_replay, shim for kani::any) and the failing assertion is recorded in the replay file.
"""
import fcntl, hashlib, json, os, re, shutil, subprocess, sys, time
sys.path.insert(0, os.path.dirname(os.path.abspath(__file__)))

ROOT = os.path.dirname(os.path.dirname(os.path.abspath(__file__)))
REPO = os.environ.get('VERIF_REPO', '/repo')
KDIR = os.path.join(ROOT, 'kani')
OUT = os.path.join(ROOT, 'out')
SCRATCH = os.environ.get('VERIF_KANI_SCRATCH', '/var/tmp/verif-kani-%d' % os.getuid())
TARGET = os.path.join(OUT, 'kani-target')
RTARGET = os.path.join(OUT, 'kani-replay-target')
TIMEOUT = int(os.environ.get('VERIF_KANI_TIMEOUT', '420'))

SHIM = r'''
    #[cfg(not(kani))]
    #[allow(dead_code)]
    pub(super) mod kani {
        //! native back end for the same harness language: kani::any() replays recorded values (VERIF_REPLAY),
        //! kani::choose(n) under kani::explore() enumerates every combination of choices by re-execution
        use std::cell::RefCell;
        thread_local! {
            static VALS: RefCell<Option<Vec<Vec<u8>>>> = const { RefCell::new(None) };
            static EN: RefCell<(bool, Vec<(usize, usize)>, usize)> = const { RefCell::new((false, Vec::new(), 0)) };
        }
        fn next(n: usize) -> Vec<u8> {
            VALS.with(|v| {
                let mut v = v.borrow_mut();
                if v.is_none() {
                    let s = std::env::var("VERIF_REPLAY").unwrap_or_default();
                    let mut all: Vec<Vec<u8>> = s.split(';').filter(|x| !x.is_empty())
                        .map(|x| x.split(',').filter(|y| !y.is_empty()).map(|y| y.parse::<u8>().unwrap()).collect()).collect();
                    all.reverse();
                    *v = Some(all);
                }
                let mut b = v.as_mut().unwrap().pop().unwrap_or_default();
                b.resize(n, 0);
                b
            })
        }
        pub trait Arb: Sized { fn arb() -> Self; }
        impl Arb for bool { fn arb() -> Self { if enumerating() { choose(2) == 1 } else { next(1)[0] & 1 == 1 } } }
        impl Arb for u8 { fn arb() -> Self { next(1)[0] } }
        impl Arb for u16 { fn arb() -> Self { let b = next(2); u16::from_le_bytes([b[0], b[1]]) } }
        impl Arb for u32 { fn arb() -> Self { let b = next(4); u32::from_le_bytes([b[0], b[1], b[2], b[3]]) } }
        impl Arb for u64 { fn arb() -> Self { let b = next(8); let mut a = [0u8; 8]; a.copy_from_slice(&b); u64::from_le_bytes(a) } }
        impl Arb for i64 { fn arb() -> Self { let b = next(8); let mut a = [0u8; 8]; a.copy_from_slice(&b); i64::from_le_bytes(a) } }
        impl Arb for usize { fn arb() -> Self { let b = next(8); let mut a = [0u8; 8]; a.copy_from_slice(&b); usize::from_le_bytes(a) } }
        pub fn any<T: Arb>() -> T { T::arb() }
        struct Reject;
        fn enumerating() -> bool { EN.with(|e| e.borrow().0) }
        /// an assumption that does not hold ends this execution (enumeration) / means the values are no witness (replay)
        pub fn assume(c: bool) {
            if !c {
                if enumerating() { std::panic::panic_any(Reject); }
                eprintln!("VERIF-REPLAY: assumption not satisfied by the recorded values"); std::process::exit(3);
            }
        }
        /// a value in 0..n; every value is tried
        pub fn choose(n: usize) -> usize {
            assert!(n > 0);
            EN.with(|e| {
                let mut e = e.borrow_mut();
                let pos = e.2;
                if pos < e.1.len() { assert!(e.1[pos].1 == n || e.1[pos].1 == usize::MAX, "harness is not deterministic"); } else { e.1.push((0, n)); }
                e.2 = pos + 1;
                e.1[pos].0
            })
        }
        /// run `f` once for every combination of choose() results (depth-first, by re-execution); the first failing
        /// execution is reported with its choices and fails the test
        pub fn explore(f: fn()) {
            let only: Option<Vec<usize>> = std::env::var("VERIF_ENUM_PATH").ok().map(|s| s.split(',').filter(|x| !x.is_empty()).map(|x| x.parse().unwrap()).collect());
            let prev = std::panic::take_hook();
            std::panic::set_hook(Box::new(move |info| { if info.payload().downcast_ref::<Reject>().is_none() { prev(info); } }));
            EN.with(|e| { let mut e = e.borrow_mut(); e.0 = true; e.1.clear(); e.2 = 0;
                if let Some(p) = &only { for v in p { e.1.push((*v, usize::MAX)); } } });
            let mut runs: u64 = 0;
            let mut rejected: u64 = 0;
            loop {
                EN.with(|e| e.borrow_mut().2 = 0);
                let r = std::panic::catch_unwind(f);
                runs += 1;
                match r {
                    Ok(()) => {}
                    Err(p) => {
                        if p.downcast_ref::<Reject>().is_some() { rejected += 1; } else {
                            let ch: Vec<usize> = EN.with(|e| { let e = e.borrow(); e.1[..e.2.min(e.1.len())].iter().map(|c| c.0).collect() });
                            eprintln!("VERIF-ENUM-FAIL harness={} choices={}", std::thread::current().name().unwrap_or("?"), ch.iter().map(|c| c.to_string()).collect::<Vec<_>>().join(","));
                            std::panic::resume_unwind(p);
                        }
                    }
                }
                if only.is_some() { break; }
                let done = EN.with(|e| {
                    let mut e = e.borrow_mut();
                    let used = e.2;
                    e.1.truncate(used);
                    while let Some(&(v, b)) = e.1.last() { if v + 1 >= b { e.1.pop(); } else { break; } }
                    match e.1.last_mut() { Some(c) => { c.0 += 1; false } None => true }
                });
                if done { break; }
            }
            eprintln!("VERIF-ENUM-DONE harness={} executions={} rejected_by_assume={}", std::thread::current().name().unwrap_or("?"), runs, rejected);
            assert!(runs > rejected || only.is_some(), "vacuous harness: every execution was rejected by an assumption");
        }
    }
    /// thorough tier: the enumeration harnesses use their larger bound
    #[allow(dead_code)]
    fn deep() -> bool { std::env::var("VERIF_THOROUGH").is_ok() }
    /// a value in 0..n (symbolic under Kani, enumerated natively)
    #[allow(dead_code)]
    fn pick(n: usize) -> usize {
        #[cfg(kani)] { let k: usize = kani::any(); kani::assume(k < n); k }
        #[cfg(not(kani))] { kani::choose(n) }
    }
'''


def parse_harness_file(path):
    txt = open(path).read()
    info = {'file': path, 'name': None, 'append': None, 'module': None, 'harnesses': []}
    for line in txt.splitlines():
        m = re.match(r'//@\s*(\w+)\s*(.*)$', line)
        if not m:
            continue
        k, rest = m.group(1), m.group(2).strip()
        if k == 'kani':
            info['name'] = rest
        elif k == 'append':
            info['append'] = rest
        elif k == 'module':
            info['module'] = rest
        elif k == 'paste':
            nm, fl, sel = rest.split(None, 2)
            info.setdefault('pastes', []).append((nm, fl, sel))
        elif k == 'harness':
            hm = re.match(r'(\w+)\s*(.*)$', rest)
            h = {'fn': hm.group(1), 'kind': 'bounded', 'props': [], 'bound': '', 'label': ''}
            for kv in re.finditer(r'(\w+)=(<<(.*?)>>(?!>)|\S+)', hm.group(2)):
                key = kv.group(1)
                val = kv.group(3) if kv.group(3) is not None else kv.group(2)
                if key == 'props':
                    h['props'] = val.split(',')
                else:
                    h[key] = val
            info['harnesses'].append(h)
    return info, txt


def all_harness_files():
    if not os.path.isdir(KDIR):
        return []
    return [os.path.join(KDIR, f) for f in sorted(os.listdir(KDIR)) if f.endswith('.rs')]


def crate_mod_path(relfile):
    # src/find/matchers/logical_matchers.rs -> find::matchers::logical_matchers ; src/xargs/mod.rs -> xargs
    p = relfile
    assert p.startswith('src/')
    p = p[4:-3]
    parts = p.split('/')
    if parts[-1] == 'mod':
        parts = parts[:-1]
    if parts == ['lib']:
        parts = []
    return '::'.join(parts)


def harnesses_for(prop):
    sel = []
    for f in all_harness_files():
        info, txt = parse_harness_file(f)
        for h in info['harnesses']:
            if prop is None or prop in h['props']:
                full = '::'.join(x for x in [crate_mod_path(info['append']), info['module'], h['fn']] if x)
                sel.append(dict(h, full=full, unit=info['name'], src=info['append'], module=info['module'], hfile=f))
    return sel


def _tree_hash(paths):
    h = hashlib.sha256()
    for p in sorted(paths):
        h.update(p.encode())
        try:
            h.update(open(p, 'rb').read())
        except OSError:
            h.update(b'<missing>')
    return h


def source_key():
    files = []
    for base in ('src',):
        for d, _, fs in os.walk(os.path.join(REPO, base)):
            for f in fs:
                if f.endswith('.rs'):
                    files.append(os.path.join(d, f))
    files += [os.path.join(REPO, 'Cargo.toml'), os.path.join(REPO, 'Cargo.lock')]
    files += all_harness_files()
    files.append(os.path.abspath(__file__))
    h = _tree_hash(files)
    h.update(kani_version().encode())
    return h.hexdigest()[:32]


_KV = None
LOST = {}
TIER = 'quick'


def kani_version():
    global _KV
    if _KV is None:
        try:
            _KV = subprocess.run(['cargo', 'kani', '--version'], capture_output=True, text=True, timeout=60).stdout.strip()
        except Exception as e:  # noqa
            _KV = 'kani-unknown'
    return _KV


def prepare_scratch(only_units=None):
    """mechanical copy of /repo's working tree + appended harness modules (all, or the named units); returns scratch repo dir"""
    dst = os.path.join(SCRATCH, 'repo')
    os.makedirs(dst, exist_ok=True)
    subprocess.run(['rsync', '-a', '--delete', '--exclude', '/target', '--exclude', '/.git', REPO + '/', dst + '/'], check=True)
    for f in all_harness_files():
        info, txt = parse_harness_file(f)
        tgt = os.path.join(dst, info['append'])
        if not os.path.exists(tgt) or (only_units is not None and info['name'] not in only_units):
            continue
        body = txt.replace('//@SHIM@', SHIM)
        # `//@ paste NAME FILE SELECTOR`: consecutive statements of the real code, extracted mechanically (tools/rustlex.py) from the
        # scratch copy on every run, pasted verbatim where the harness says /*@PASTE NAME@*/
        lost = None
        for nm, fl, sel in info.get('pastes', []):
            try:
                import rustlex as rl
                t = open(os.path.join(dst, fl)).read()
                mk = rl.code_mask(t)
                a, b = rl.find_item(t, mk, sel)
                body = body.replace('/*@PASTE %s@*/' % nm, '\n// ---- verbatim from %s:%d-%d ----\n' % (fl, rl.line_of(t, a), rl.line_of(t, b)) + t[a:b] + '\n// ---- end of verbatim text ----\n')
            except Exception as ex:  # lost anchor: this unit cannot be built on the current tree
                lost = '%s: lost anchor %s %s (%s)' % (info['name'], fl, sel, ex)
        if lost:
            LOST[info['name']] = lost
            continue
        with open(tgt, 'a') as fh:
            fh.write('\n// ---- appended by /verif/tools/kani_lane.py from %s (scratch copy only) ----\n' % os.path.relpath(f, ROOT))
            fh.write(body)
    return dst


def cleanup_scratch():
    shutil.rmtree(SCRATCH, ignore_errors=True)
    # trees the enumeration harnesses made for themselves
    import glob, tempfile
    for d in glob.glob(os.path.join(tempfile.gettempdir(), 'verif-enum-*')):
        shutil.rmtree(d, ignore_errors=True)


def _env():
    e = dict(os.environ)
    e['CARGO_NET_OFFLINE'] = 'true'
    e['CARGO_TARGET_DIR'] = TARGET
    e.pop('RUSTFLAGS', None)
    return e


def run_kani(dst, hs, playback=False, jobs=8):
    cmd = ['cargo', 'kani', '--exact']
    for h in hs:
        cmd += ['--harness', h['full']]
    if playback:
        cmd += ['-Z', 'concrete-playback', '--concrete-playback=print']
    elif len(hs) > 1:
        cmd += ['-j', str(jobs), '--output-format', 'terse']
    t0 = time.time()

    def _limit():
        # CBMC on String/Vec-heavy changed code has been seen to take > 60 GB: cap each process (a capped run is "no verdict")
        import resource
        cap = int(os.environ.get('VERIF_KANI_MEM_GB', '20')) << 30
        resource.setrlimit(resource.RLIMIT_AS, (cap, cap))
    try:
        p = subprocess.run(cmd, cwd=dst, env=_env(), capture_output=True, text=True, timeout=TIMEOUT, preexec_fn=_limit)
        out = p.stdout + '\n' + p.stderr
        rc = p.returncode
    except subprocess.TimeoutExpired as e:
        out = ((e.stdout or b'').decode(errors='replace') if isinstance(e.stdout, bytes) else (e.stdout or '')) + '\nTIMEOUT'
        rc = -9
    return rc, out, time.time() - t0, ' '.join(cmd)


def run_enum(dst, hs, path=None):
    """native exhaustive enumeration of the harness's choices (cargo test on the scratch copy, plain rustc)"""
    env = dict(os.environ)
    env['CARGO_NET_OFFLINE'] = 'true'
    env['CARGO_TARGET_DIR'] = RTARGET
    env['RUSTFLAGS'] = '--cfg verif_replay'
    env.pop('VERIF_REPLAY', None)
    env.pop('VERIF_ENUM_PATH', None)
    env.pop('VERIF_THOROUGH', None)
    if TIER == 'thorough':
        env['VERIF_THOROUGH'] = '1'
    if path is not None:
        env['VERIF_ENUM_PATH'] = ','.join(str(c) for c in path)
    cmd = ['cargo', 'test', '--offline', '--lib', '--', '--exact'] + [h['full'] for h in hs] + ['--nocapture']
    t0 = time.time()
    try:
        p = subprocess.run(cmd, cwd=dst, env=env, capture_output=True, text=True, timeout=TIMEOUT)
        out, rc = p.stdout + '\n' + p.stderr, p.returncode
    except subprocess.TimeoutExpired as e:
        out, rc = 'TIMEOUT', -9
    res = {}
    for h in hs:
        r = {'status': None, 'failed_checks': [], 'time': None}
        # the verdict comes from the harness's own one-line markers (each written by a single eprintln!, hence never interleaved
        # with the output of the other test threads), not from libtest's "test X ... ok" lines, which --nocapture can split
        d = re.search(r'VERIF-ENUM-DONE harness=%s executions=(\d+) rejected_by_assume=(\d+)' % re.escape(h['full']), out)
        if d:
            r['status'] = 'pass'
            r['executions'] = int(d.group(1))
            r['rejected'] = int(d.group(2))
        f = re.search(r'VERIF-ENUM-FAIL harness=%s choices=([\d,]*)' % re.escape(h['full']), out)
        if f:
            r['status'] = 'fail'
            r['choices'] = [int(x) for x in f.group(1).split(',') if x]
            pm = re.findall(r"panicked at [^\n]*\n([^\n]*)", out)
            r['failed_checks'] = pm[:3]
        res[h['full']] = r
    return rc, out, time.time() - t0, "RUSTFLAGS='--cfg verif_replay' " + ' '.join(cmd), res


def parse_results(out, hs):
    """status per harness from Kani's output"""
    res = {}
    # blocks start at "Checking harness <name>..." ; terse parallel mode prints "Thread N: Checking harness"
    cur = None
    threads = {}
    for line in out.splitlines():
        m = re.search(r'(?:Thread (\d+): )?Checking harness ([\w:]+)\.\.\.', line)
        if m:
            if m.group(1) is not None:
                threads[m.group(1)] = m.group(2)
                cur = None
            else:
                cur = m.group(2)
            res.setdefault(m.group(2), {'status': None, 'failed_checks': [], 'time': None})
            continue
        mt = re.match(r'Thread (\d+):\s*$', line)
        if mt:
            cur = threads.get(mt.group(1))
            continue
        if cur:
            if 'VERIFICATION:- SUCCESSFUL' in line:
                res[cur]['status'] = 'pass'
            elif 'VERIFICATION:- FAILED' in line:
                res[cur]['status'] = 'fail'
            m2 = re.match(r'Failed Checks: (.*)$', line.strip())
            if m2:
                res[cur]['failed_checks'].append(m2.group(1))
            m3 = re.match(r'Verification Time: ([\d.]+)s', line.strip())
            if m3:
                res[cur]['time'] = float(m3.group(1))
    return res


def parse_playback(out):
    """the byte vectors of the generated concrete-playback test, in kani::any() call order"""
    m = re.search(r'let concrete_vals: Vec<Vec<u8>> = vec!\[(.*?)\n\s*\];', out, re.S)
    if not m:
        return None
    vals = []
    for v in re.finditer(r'vec!\[([\d,\s]*)\]', m.group(1)):
        vals.append([int(x) for x in v.group(1).replace(' ', '').split(',') if x])
    return vals


def replay_real(dst, h, vals):
    """run the same harness body as a plain #[test] on the real code with the recorded values"""
    env = dict(os.environ)
    env['CARGO_NET_OFFLINE'] = 'true'
    env['CARGO_TARGET_DIR'] = RTARGET
    env['RUSTFLAGS'] = '--cfg verif_replay'
    env['VERIF_REPLAY'] = ';'.join(','.join(str(b) for b in v) if v else '' for v in vals) if vals else ''
    # empty vectors must keep their slot
    env['VERIF_REPLAY'] = ';'.join((','.join(str(b) for b in v) if v else '0') for v in (vals or []))
    cmd = ['cargo', 'test', '--offline', '--lib', h['full'], '--', '--exact', '--nocapture']
    try:
        p = subprocess.run(cmd, cwd=dst, env=env, capture_output=True, text=True, timeout=TIMEOUT)
        out = (p.stdout + '\n' + p.stderr)
        rc = p.returncode
    except subprocess.TimeoutExpired:
        out, rc = 'TIMEOUT', -9
    ran = re.search(r'running 1 test', out) is not None
    failed = ran and rc != 0 and ('panicked at' in out)
    tail = '\n'.join([l for l in out.splitlines() if 'panicked' in l or 'assert' in l or 'VERIF-REPLAY' in l or 'test result' in l or l.startswith('error')][-12:])
    return {'cmd': "RUSTFLAGS='--cfg verif_replay' VERIF_REPLAY='%s' %s" % (env['VERIF_REPLAY'], ' '.join(cmd)),
            'ran': ran, 'reproduced': failed, 'rc': rc, 'output': tail}


def run(prop, need_replay=True):
    return run_harnesses(harnesses_for(prop), 'thorough', need_replay)


def run_harnesses(hs, tier='quick', need_replay=True):
    """returns list of per-harness results (cached on the source tree + harness text).  On a cache miss every harness of the
    tier is run in the same Kani invocation (one compilation of the crate), whatever property asked first."""
    if not hs:
        return []
    os.makedirs(os.path.join(OUT, 'cache'), exist_ok=True)
    key = source_key()
    cfile = os.path.join(OUT, 'cache', 'kani-%s-%s.json' % (key, tier))
    global TIER, TIMEOUT
    TIER = tier
    if tier == 'thorough' and 'VERIF_KANI_TIMEOUT' not in os.environ:
        # the larger enumeration bounds of one module take 5-6 minutes on an idle 16-core machine; leave room for a loaded one
        TIMEOUT = max(TIMEOUT, 1800)
    cache = {}
    if os.path.exists(cfile) and not os.environ.get('VERIF_NOCACHE'):
        try:
            cache = json.load(open(cfile))
        except Exception:
            cache = {}
    todo = [h for h in hs if h['full'] not in cache]
    if todo:
        lock = open(os.path.join(OUT, 'kani.lock'), 'w')
        fcntl.flock(lock, fcntl.LOCK_EX)
        try:
            # another process may have filled the cache while we waited
            if os.path.exists(cfile) and not os.environ.get('VERIF_NOCACHE'):
                try:
                    cache = json.load(open(cfile))
                except Exception:
                    cache = {}
                todo = [h for h in hs if h['full'] not in cache]
            if todo:
                # only the harnesses this property (and the ones it builds on) needs are run; all modules are still appended, so the
                # crate is compiled the same way whatever property asks and cargo's incremental build is shared
                def attempt(group, only_units):
                    dst = prepare_scratch(only_units)
                    runnable = [h for h in group if h['unit'] not in LOST and h['kind'] != 'enum']
                    enumerable = [h for h in group if h['unit'] not in LOST and h['kind'] == 'enum']
                    if runnable:
                        rc, out, dt, cmd = run_kani(dst, runnable)
                    else:
                        rc, out, dt, cmd = 0, '', 0.0, ''
                    res = parse_results(out, runnable)
                    ecmd = ''
                    if enumerable:
                        erc, eout, edt, ecmd, eres = run_enum(dst, enumerable)
                        ecompile = 'error: could not compile' in eout or re.search(r'^error\[E\d+\]:', eout, re.M) is not None
                        eunits = sorted(set(h['unit'] for h in enumerable))
                        if ecompile and len(eunits) > 1:
                            # one harness module does not fit the changed code: build the others without it
                            for u in eunits:
                                dst_u = prepare_scratch([u])
                                hs_u = [h for h in enumerable if h['unit'] == u]
                                erc, eout_u, edt_u, ecmd, eres_u = run_enum(dst_u, hs_u)
                                res.update(eres_u)
                                edt += edt_u
                                if 'error: could not compile' in eout_u or re.search(r'^error\[E\d+\]:', eout_u, re.M):
                                    for h in hs_u:
                                        res[h['full']] = {'status': None, 'failed_checks': [], 'time': None,
                                                          'why': 'harness does not compile against the current tree (code outside the harness subset): ' + ' | '.join([l for l in eout_u.splitlines() if l.startswith('error')][:4])[:500]}
                            dst = prepare_scratch(only_units)
                        else:
                            res.update(eres)
                            if ecompile:
                                for h in enumerable:
                                    res[h['full']] = {'status': None, 'failed_checks': [], 'time': None,
                                                      'why': 'harness does not compile against the current tree (code outside the harness subset): ' + ' | '.join([l for l in eout.splitlines() if l.startswith('error')][:4])[:500]}
                        dt += edt
                    compile_err = ('error: could not compile' in out or re.search(r'^error(\[E\d+\])?:', out, re.M) is not None) and not any(v.get('status') for v in res.values())
                    if compile_err and only_units is None and len(set(h['unit'] for h in group)) > 1:
                        # one harness module does not fit the changed code: it must not take the others down with it
                        for u in sorted(set(h['unit'] for h in group)):
                            attempt([h for h in group if h['unit'] == u], [u])
                        return
                    for h in group:
                        r = res.get(h['full'])
                        entry = {'harness': h['full'], 'kind': h['kind'], 'bound': (h.get('thorough_bound') if TIER == 'thorough' and h.get('thorough_bound') else h.get('bound', '')), 'label': h.get('label', ''),
                                 'unit': h['unit'], 'cmd': (ecmd if h['kind'] == 'enum' else cmd), 'wall': round(dt, 1), 'cached': False}
                        if h['unit'] in LOST:
                            entry['status'] = 'undecided'
                            entry['reason'] = LOST[h['unit']]
                            cache[h['full']] = entry
                            continue
                        if r is not None and r.get('why'):
                            entry['status'] = 'undecided'
                            entry['reason'] = r['why']
                            cache[h['full']] = entry
                            continue
                        if r is None or r['status'] is None:
                            entry['status'] = 'undecided'
                            errs = [l for l in out.splitlines() if l.startswith('error')][:6]
                            entry['reason'] = ('harness does not compile against the current tree (code outside the harness subset): ' if compile_err else
                                               'no verdict (timeout or tool failure): ') + ' | '.join(errs)[:600]
                        else:
                            entry['status'] = r['status']
                            entry['time'] = r['time']
                            entry['failed_checks'] = r['failed_checks']
                            for kx in ('executions', 'rejected', 'choices'):
                                if kx in r:
                                    entry[kx] = r[kx]
                        if entry['status'] == 'fail' and h['kind'] == 'enum':
                            # the failing execution again, alone: this IS the real code, compiled by plain rustc
                            rc3, out3, dt3, cmd3, res3 = run_enum(dst, [h], path=entry.get('choices'))
                            keep = [l for l in out3.splitlines() if l.startswith('VERIF') or 'panicked' in l or l.startswith('  input') or 'assert' in l or 'test result' in l]
                            entry['concrete_vals'] = entry.get('choices')
                            entry['replay'] = {'cmd': "VERIF_ENUM_PATH=%s %s" % (','.join(str(c) for c in entry.get('choices') or []), cmd3),
                                               'ran': True, 'reproduced': res3.get(h['full'], {}).get('status') == 'fail', 'rc': rc3, 'output': '\n'.join(keep[-14:])}
                        elif entry['status'] == 'fail' and need_replay:
                            rc2, out2, dt2, cmd2 = run_kani(dst, [h], playback=True)
                            vals = parse_playback(out2)
                            r2 = parse_results(out2, [h]).get(h['full'], {})
                            entry['failed_checks'] = r2.get('failed_checks') or entry.get('failed_checks')
                            entry['concrete_vals'] = vals
                            entry['playback_cmd'] = cmd2
                            if vals is not None:
                                entry['replay'] = replay_real(dst, h, vals)
                        cache[h['full']] = entry
                try:
                    attempt(todo, None)
                finally:
                    cleanup_scratch()
                tmp = cfile + '.tmp%d' % os.getpid()
                json.dump(cache, open(tmp, 'w'), indent=1)
                os.replace(tmp, cfile)
        finally:
            fcntl.flock(lock, fcntl.LOCK_UN)
            lock.close()
    outl = []
    for h in hs:
        e = dict(cache[h['full']])
        e['cached'] = h['full'] not in set(t['full'] for t in todo)
        e['props'] = h['props']
        e['covers'] = h.get('covers')
        outl.append(e)
    return outl


def replay_file(rp):
    """bin/check <prop> --replay FILE for a Kani violation: exit 1 when the recorded values make the real code fail the harness"""
    k = rp['kani']
    hs = [h for h in harnesses_for(None) if h['full'] == k['harness']]
    if not hs or k.get('concrete_vals') is None:
        print('replay: harness %s not found or no recorded values' % k['harness'])
        return 2
    lock = open(os.path.join(OUT, 'kani.lock'), 'w')
    fcntl.flock(lock, fcntl.LOCK_EX)
    try:
        dst = prepare_scratch()
        try:
            if hs[0]['kind'] == 'enum':
                rc3, out3, dt3, cmd3, res3 = run_enum(dst, [hs[0]], path=k['concrete_vals'])
                keep = [l for l in out3.splitlines() if l.startswith('VERIF') or 'panicked' in l or l.startswith('  input') or 'test result' in l]
                r = {'cmd': 'VERIF_ENUM_PATH=%s %s' % (','.join(str(c) for c in k['concrete_vals']), cmd3), 'ran': 'running 1 test' in out3,
                     'reproduced': res3.get(hs[0]['full'], {}).get('status') == 'fail', 'output': '\n'.join(keep[-14:])}
            else:
                r = replay_real(dst, hs[0], k['concrete_vals'])
        finally:
            cleanup_scratch()
    finally:
        fcntl.flock(lock, fcntl.LOCK_UN)
    print(r['cmd'])
    print(r['output'])
    if r['reproduced']:
        print('replay: REPRODUCED on the real code (%s)' % k['harness'])
        return 1
    print('replay: not reproduced on the current tree')
    return 0 if r['ran'] else 2


if __name__ == '__main__':
    prop = sys.argv[1] if len(sys.argv) > 1 else None
    for r in run(prop):
        print(json.dumps(r, indent=1))
